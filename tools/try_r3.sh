#!/bin/bash
# try_r3.sh <outdir> <PROP_n> [check-prop] [demo-pkg-dir]
# confirm a round-3 seeded change on the current /repo tree (demo passes clean, fails seeded),
# run the property's quick check against it, archive under /verif/seeded/<PROP_n>_r3
set -u
OUT=$1; ID=$2; P=$(echo $ID | cut -d_ -f1); CHK=${3:-$P}; PKG=${4:-interp}
export GOFLAGS=-mod=mod GOPROXY=off GOSUMDB=off GOTOOLCHAIN=local
D=$OUT/$ID
[ -f $D/patch.diff ] || { echo "missing $D/patch.diff"; exit 2; }
[ -n "$(git -C /repo status --porcelain)" ] && { echo "/repo not clean"; exit 2; }
S=/verif/seeded/${ID}_r3; mkdir -p $S; cp $D/patch.diff $S/; cp $D/demo_test.go.txt $S/ 2>/dev/null; cp $D/meta.txt $S/notes.txt 2>/dev/null
TN=$(grep -o 'func Test[A-Za-z0-9_]*' $D/demo_test.go.txt | sed 's/func //' | paste -sd'|')
mkdir -p /tmp/r3ov; cp $D/demo_test.go.txt /tmp/r3ov/zz_seed_test.go
echo "{\"Replace\":{\"/repo/$PKG/zz_seed_test.go\":\"/tmp/r3ov/zz_seed_test.go\"}}" > /tmp/r3ov/ov.json
cd /repo
CLEAN=$(timeout 900 go test -vet=off -count=1 -overlay /tmp/r3ov/ov.json -run "^($TN)\$" ./$PKG 2>&1 | tail -1)
if ! git apply $D/patch.diff 2>/dev/null; then git apply --3way $D/patch.diff 2>/dev/null || { echo "patch does not apply"; git checkout -q -- .; exit 3; }; git reset -q; fi
BUILD=$(go build ./... 2>&1 | tail -1)
SEEDED=$(timeout 900 go test -vet=off -count=1 -overlay /tmp/r3ov/ov.json -run "^($TN)\$" ./$PKG 2>&1 | tail -1)
echo "demo on clean tree : $CLEAN"
echo "build with seed    : ${BUILD:-ok}"
echo "demo with seed     : $SEEDED"
cd /verif && OUT2=$(timeout 3000 ./check $CHK quick 2>&1); RC=$?
git -C /repo checkout -q -- .; git -C /repo clean -fdq -- interp stdlib extract
echo "$OUT2" | grep "VIOLATION\|^  obligation\|KNOWN-FINDING\|INCONCLUSIVE\|UNREPRODUCED" | cut -c1-260 | head -6
echo "$OUT2" | tail -1 | cut -c1-200
echo "check exit=$RC"
{ echo "demo on clean tree : $CLEAN"; echo "build with seed    : ${BUILD:-ok}"; echo "demo with seed     : $SEEDED"; echo "check exit=$RC"; echo "$OUT2"; } > $S/check_output.txt
