#!/usr/bin/env python3
"""Run the repository's pinned suite (guard off) and compare with BASELINE.json:
every stable_pass test must pass. Usage: baseline_check.py [logfile]"""
import json, subprocess, sys, os
base = json.load(open('/root/.vp/BASELINE.json'))
want = set(base['stable_pass'])
env = dict(os.environ, GOFLAGS='-mod=mod', GOPROXY='off', GOSUMDB='off', GOTOOLCHAIN='local')
p = subprocess.run(['go', 'test', '-json', '-vet=off', '-count=1', '-timeout', '25m', './...'], cwd='/repo', env=env, capture_output=True, text=True)
status = {}
for line in p.stdout.splitlines():
    try:
        ev = json.loads(line)
    except Exception:
        continue
    if ev.get('Action') in ('pass', 'fail', 'skip') and ev.get('Test'):
        status[ev['Package'] + '::' + ev['Test']] = ev['Action']
missing = sorted(t for t in want if status.get(t) != 'pass')
print('stable_pass=%d passed_now=%d not_passing=%d' % (len(want), sum(1 for t in want if status.get(t) == 'pass'), len(missing)))
for t in missing[:40]:
    print('  NOT PASSING:', t, status.get(t))
sys.exit(1 if missing else 0)
