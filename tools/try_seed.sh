#!/bin/bash
# try_seed.sh <PROP> <n> [check-prop]   confirm a seeded defect in its worktree, archive it, run the check against it
set -u
P=$1; N=$2; CHK=${3:-$P}
WT=/tmp/wt_$P
export GOFLAGS=-mod=mod GOPROXY=off GOSUMDB=off GOTOOLCHAIN=local
D=$WT/seed_${P}_${N}.diff; T=$WT/seed_${P}_${N}_test.go.txt
[ -f "$D" ] || { echo "missing $D"; exit 2; }
cd $WT && git checkout -q -- . 2>/dev/null
TESTNAME=$(grep -o 'func Test[A-Za-z0-9_]*' $T | head -1 | sed 's/func //')
cp $T interp/zz_seed_test.go
CLEAN=$(timeout 600 go test -vet=off -count=1 ./interp/ -run "^${TESTNAME}\$" 2>&1 | tail -1)
git apply $D || { echo "diff does not apply"; rm -f interp/zz_seed_test.go; exit 2; }
BUILD=$(go build ./... 2>&1 | tail -1)
SEEDED=$(timeout 600 go test -vet=off -count=1 ./interp/ -run "^${TESTNAME}\$" 2>&1 | tail -1)
git checkout -q -- . ; rm -f interp/zz_seed_test.go
echo "demo on clean tree : $CLEAN"
echo "build with seed    : ${BUILD:-ok}"
echo "demo with seed     : $SEEDED"
S=/verif/seeded/${P}_${N}; mkdir -p $S; cp $D $S/patch.diff; cp $T $S/demo_test.go.txt
grep -i -A3 "seed_${P}_${N}\|${P}_${N}\|^${N}[.)]" $WT/seed_notes.txt 2>/dev/null | head -8 > $S/notes.txt
# run the check against the seeded tree
cd /repo && git apply $D && cd /verif && OUT=$(timeout 3000 ./check $CHK quick 2>&1); RC=$?
cd /repo && git checkout -q -- .
echo "$OUT" | grep "VIOLATION\|^  obligation\|KNOWN-FINDING\|INCONCLUSIVE\|UNREPRODUCED" | cut -c1-260 | head -8
echo "$OUT" | tail -1 | cut -c1-200
echo "check exit=$RC"
echo "$OUT" > $S/check_output.txt
