#!/bin/sh
# tools/e2e_each.sh <C01|C05> : one summary line per program of the corpus
cd "$(dirname "$0")/.."
dir=e2e_programs; [ "$1" = "C05" ] && dir=e2e_c05
k=0
for f in $(ls harness/$dir/*.go.txt | sort); do
  r=$(VERIF_IDX=$k ./check $1 quick 2>&1 | grep "VIOLATION\|KNOWN\|INCONC\|UNREPRO\| quick:" | cut -c1-150 | tr '\n' '|')
  echo "$k $(basename $f .go.txt): $r"
  k=$((k+1))
done
