#!/bin/sh
# tools/runall.sh [quick|thorough]: every registered check in sequence, one summary line each
cd "$(dirname "$0")/.."
tier=${1:-quick}
for id in $(python3 -c "import json;print(' '.join(c['property_id'] for c in json.load(open('MANIFEST.json'))['checks']))"); do
  t0=$(date +%s)
  out=$(./check $id $tier 2>&1); rc=$?
  echo "$id rc=$rc $(( $(date +%s) - t0 ))s $(echo "$out" | grep -c '^VIOLATION') violations | $(echo "$out" | tail -1)"
done
