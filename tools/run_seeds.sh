#!/bin/sh
# tools/run_seeds.sh [id ...]   apply each archived seeded change to /repo, run the
# property's quick check, expect "VIOLATION" (exit 1), undo. /repo must be clean.
# Prints one line per seed: <id> caught|MISSED|skipped(<why>)
cd "$(dirname "$0")/.."
if [ -n "$(git -C /repo status --porcelain)" ]; then echo "/repo is not clean" >&2; exit 2; fi
ids="$*"
[ -z "$ids" ] && ids=$(ls seeded)
for id in $ids; do
  d=seeded/$id
  [ -f $d/patch.diff ] || continue
  prop=$(python3 -c "import json,sys; print(json.load(open('$d/meta.json'))['property'])" 2>/dev/null)
  [ -z "$prop" ] && prop=$(echo $id | cut -c1-3)
  st=$(python3 -c "import json,sys; print(json.load(open('$d/meta.json')).get('status',''))" 2>/dev/null)
  pf=$d/patch.diff
  # the change re-made on the current tree, where later repairs moved the code
  [ -f $d/patch_ported.diff ] && pf=$d/patch_ported.diff
  if ! git -C /repo apply --check "$(pwd)/$pf" 2>/dev/null; then echo "$id skipped(patch no longer applies)"; continue; fi
  git -C /repo apply "$(pwd)/$pf"
  out=$(timeout 2400 ./check $prop quick 2>&1); rc=$?
  git -C /repo checkout -- . ; git -C /repo clean -fdq -- stdlib interp extract 2>/dev/null
  if [ $rc -eq 1 ] && echo "$out" | grep -q "^VIOLATION property=$prop"; then echo "$id caught ($(echo "$out" | grep -m1 '^VIOLATION' | sed 's/.*replay=//' | xargs basename))"; else echo "$id MISSED (exit=$rc; recorded status: $st) $(echo "$out" | tail -1)"; fi
done
