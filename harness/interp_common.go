package interp

// Common scaffolding for the run-loop properties (C06, C09, C10, C12, C19).
//
// A "program" is abstracted to a graph of opaque exec steps: each step may
// return any successor (or nil), chosen by the solver. Time is a logical
// clock that ticks at every atomic load of a run id (the engine calls vhTick
// before each sync/atomic.LoadUint64); the cancel instant is a symbolic
// clock value.

import (
	"go/token"
	"io"
	"reflect"
)

var (
	vhClock    int  // logical clock: number of run-id loads so far
	vhStopAt   = -1 // symbolic cancel instant (-1: never)
	vhStopped  bool // stop() has happened
	vhInterp   *Interpreter
	vhSteps    int // exec steps taken (all activations)
	vhMaxSteps = 4 // bound on exec steps per harness run
	vhNExec    = 2 // number of distinct exec closures per activation
	vhAfterStop int // exec steps started after the cancel
	vhTrace    []int // ids of exec closures invoked, in order
	vhLastBase  = -1   // identity base of the activation that ran the previous step
	vhNewActAfterStop bool // some activation took its first step after the cancel
	vhBaseAtStop = -1  // the activation that was running when the cancel arrived
	vhAfterStopSame int // steps of THAT activation started after the cancel
)

func vhResetClock() {
	vhClock, vhStopped, vhSteps, vhAfterStop = 0, false, 0, 0
	vhTrace = nil
	vhLastBase = -1
	vhNewActAfterStop = false
	vhBaseAtStop, vhAfterStopSame = -1, 0
}

// vhTick is called before every atomic load of a run id.
func vhTick() {
	if !vhStopped && vhClock == vhStopAt {
		vhStopped = true
		vhBaseAtStop = vhLastBase
		vhInterp.stop() // the real stop(): advances the interpreter id, closes done
	}
	vhClock++
}

func vhNewInterp() *Interpreter {
	i := &Interpreter{}
	vhInterp = i
	i.id = 1
	i.done = make(chan struct{})
	i.frame = newFrame(nil, 1, i.runid())
	i.scopes = map[string]*scope{}
	i.universe = &scope{}
	i.fset = token.NewFileSet()
	i.stderr = io.Discard
	vhInterp = i
	return i
}

// vhExecGraph builds k exec closures with identities base..base+k-1. Each
// invocation logs itself and returns a solver-chosen successor (or nil); the
// total number of steps is bounded by vhMaxSteps.
func vhExecGraph(base, k int) []bltn {
	execs := make([]bltn, k)
	for i := 0; i < k; i++ {
		i := i
		execs[i] = func(f *frame) bltn {
			vhTrace = append(vhTrace, base+i)
			if vhStopped {
				vhAfterStop++
				if base != vhLastBase {
					vhNewActAfterStop = true
				}
				if base == vhBaseAtStop {
					vhAfterStopSame++
				}
			}
			vhLastBase = base
			vhSteps++
			if vhSteps >= vhMaxSteps {
				return nil
			}
			j := vConcretizeInt(vNondetInt("succ"), 0, k)
			if j == k {
				return nil
			}
			return execs[j]
		}
	}
	return execs
}

// vhNode makes a CFG entry node whose steps are an opaque exec graph.
func vhNode(i *Interpreter, base int) *node {
	ex := vhExecGraph(base, vhNExec)
	n := &node{interp: i, exec: ex[0]}
	n.start = n
	return n
}

// vCallMade calls a function value produced by reflect.MakeFunc.
func vCallMade(v reflect.Value, in []reflect.Value) []reflect.Value { return v.Call(in) }

