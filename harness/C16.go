package interp

// C16: source imports resolve to the nearest enclosing vendor directory, else
// GOPATH/src.
//
// Real code executed from SSA: (*Interpreter).pkgDir, previousRoot,
// effectivePkg, isPathRelative (and io/fs.Stat).
// The directory tree is an uninterpreted predicate isdir(path): one solver
// query covers every tree over the names in play. The importer's location and
// the import path are shaped: a few '/'-separated words, each word free.

import (
	"io/fs"
	"strings"
	"time"
)

const vhGoPath = "/g"

type vhFS struct{}

var vhNotExist error = &fs.PathError{Op: "stat", Path: "", Err: fs.ErrNotExist}

func (vhFS) Open(name string) (fs.File, error) { return nil, vhNotExist }

var vhReadDirArg []string // directories importSrc asked to list

// ReadDir records the directory importSrc resolved to and stops the import there.
func (vhFS) ReadDir(name string) ([]fs.DirEntry, error) {
	vhReadDirArg = append(vhReadDirArg, name)
	return nil, vhNotExist
}

func (vhFS) Stat(name string) (fs.FileInfo, error) {
	if vPred("isdir", name) {
		return vhDirInfo{}, nil
	}
	return nil, vhNotExist
}

type vhDirInfo struct{}

func (vhDirInfo) Name() string       { return "d" }
func (vhDirInfo) Size() int64        { return 0 }
func (vhDirInfo) Mode() fs.FileMode  { return fs.ModeDir }
func (vhDirInfo) ModTime() time.Time { return time.Time{} }
func (vhDirInfo) IsDir() bool        { return true }
func (vhDirInfo) Sys() any           { return nil }

var (
	vhRootSegs = 2 // words in the importer's directory (relative to GOPATH/src)
	vhImpSegs  = 1 // words in the import path
)

const vhSegChars = "abcdefghijklmnopqrstuvwxyz"

// vhOracleDir: Go's rule. The importer lives in GOPATH/src/<root>; for each
// ancestor (nearest first) <ancestor>/vendor/<imp> wins if it is a directory,
// otherwise GOPATH/src/<imp>.
func vhOracleDir(root []string, imp string) (string, bool) {
	for k := len(root); k >= 0; k-- {
		base := vhGoPath + "/src"
		for _, s := range root[:k] {
			base += "/" + s
		}
		cand := base + "/vendor/" + imp
		if vPred("isdir", cand) {
			return cand, true
		}
	}
	cand := vhGoPath + "/src/" + imp
	if vPred("isdir", cand) {
		return cand, true
	}
	return "", false
}

func vh_C16_resolve() {
	vhResetClock()
	i := vhNewInterp()
	i.opt.filesystem = vhFS{}
	i.opt.context.GOPATH = vhGoPath
	var root []string
	for k := 0; k < vhRootSegs; k++ {
		root = append(root, vNondetWordN("root", vhSegChars, 1, 6))
	}
	var impSegs []string
	for k := 0; k < vhImpSegs; k++ {
		impSegs = append(impSegs, vNondetWordN("imp", vhSegChars, 1, 6))
	}
	imp := strings.Join(impSegs, "/")
	rootS := strings.Join(root, "/")
	// a real tree is prefix closed: the importer's directory and its ancestors
	// exist, and a vendored package implies its vendor directory
	base := vhGoPath + "/src"
	vAssume(vPred("isdir", base))
	for k := 0; k <= len(root); k++ {
		if k > 0 {
			base += "/" + root[k-1]
			vAssume(vPred("isdir", base))
		}
		vAssume(vImplies(vPred("isdir", base+"/vendor/"+imp), vPred("isdir", base+"/vendor")))
	}
	// the importer is not itself below a directory named like a file system
	// artefact of the harness (no constraint); go on
	vReach("C16.resolve")
	var dir string
	var err error
	panicked := false
	func() {
		defer func() {
			if recover() != nil {
				panicked = true
			}
		}()
		dir, _, err = i.pkgDir(vhGoPath, rootS, imp)
	}()
	vAssert("C16.no-panic", !panicked)
	if panicked {
		return
	}
	want, found := vhOracleDir(root, imp)
	// known: at every level of the walk up, pkgDir also tries
	// GOPATH/src/<level>/<imp> (effectivePkg), a place Go never looks in
	sub := false
	anc := vhGoPath + "/src"
	for k := 0; k < len(root); k++ {
		anc += "/" + root[k]
		sub = vOr(sub, vPred("isdir", anc+"/"+imp))
	}
	if found {
		vKnown("C16.importer-subdir-candidate", sub)
		vAssert("C16.resolve.finds-nearest", err == nil && dir == want)
	} else {
		vKnown("C16.importer-subdir-candidate", sub)
		vAssert("C16.resolve.reports-missing", err != nil)
	}
}

// ---- relative imports: resolved against the importing file's directory ----

var (
	vhRelUp   = 0 // 0: "./x", 1: "../x"
	vhRelFrom = 0 // importer: 0 the main file itself ("main"), 1 a package one level below, 2 two levels below
)

func vh_C16_relative() {
	vhResetClock()
	i := vhNewInterp()
	i.opt.filesystem = vhFS{}
	i.opt.context.GOPATH = vhGoPath
	i.srcPkg = map[string]map[string]*symbol{}
	i.pkgNames = map[string]string{}
	i.rdir = map[string]bool{}
	// the main file lives in <d1>/<d2>/main.go
	d1, d2 := vNondetWordN("dir", vhSegChars, 1, 5), vNondetWordN("dir", vhSegChars, 1, 5)
	i.name = d1 + "/" + d2 + "/main.go"
	mainDir := []string{d1, d2}
	// the importer's directory relative to the main file's directory
	rPath := mainID
	importerDir := mainDir
	for k := 0; k < vhRelFrom; k++ {
		w := vNondetWordN("sub", vhSegChars, 1, 5)
		if k == 0 {
			rPath = w
		} else {
			rPath += "/" + w
		}
		importerDir = append(importerDir, w)
	}
	x := vNondetWordN("imp", vhSegChars, 1, 5)
	imp := "./" + x
	want := importerDir
	if vhRelUp == 1 {
		imp = "../" + x
		want = want[:len(want)-1]
	}
	wantDir := strings.Join(append(append([]string{}, want...), x), "/")
	vhReadDirArg = nil
	vReach("C16.relative")
	_, err := i.importSrc(rPath, imp, NoTest)
	vAssert("C16.relative.stops-at-missing-dir", err != nil)
	// known: importSrc uses the value "main" of rPath to mean "the main file's own
	// directory", so a package directory that is itself called main is mistaken for it
	vKnown("C16.rpath-main-collision", vAnd(vhRelFrom == 1, rPath == mainID))
	vAssert("C16.relative", len(vhReadDirArg) == 1 && vhReadDirArg[0] == wantDir)
}

var vhRegistry = map[string]func(){"vh_C16_resolve": vh_C16_resolve, "vh_C16_relative": vh_C16_relative, "vh_import_body": vh_import_body, "vh_import_cycle": vh_import_cycle, "vh_import_subroot": vh_import_subroot}

var vhIntVars = map[string]*int{"vhRootSegs": &vhRootSegs, "vhImpSegs": &vhImpSegs, "vhRelUp": &vhRelUp, "vhRelFrom": &vhRelFrom, "vhSubShape": &vhSubShape}

var vhScenarios = vhImportScenarios
