package interp

// C09, blocking channel operations: with a context (cancelChan), every
// operation that may block waits in reflect.Select with the frame's done
// channel as case 0, and stops (returns nil) when that case fires.
//
// Real code executed from SSA: recv (both forms), recv2, send, rangeChan,
// _select generators and the closures they install, genValue, genDestValue.

import (
	"reflect"
	"time"
)

var (
	vhBlockOp   = 0 // 0 recv, 1 recv as branch condition, 2 recv2 (v, ok := <-c), 3 send, 4 range over channel, 5 select (two receive clauses), 6 select {} (no clause)
	vhSelCalls  int
	vhSelDoneAt0 bool // at every reflect.Select so far, the frame's done case was among the cases
	vhSelDoneIdx int
	vhSelHook   func()          // runs once, at the next reflect.Select (preemption point)
	vhSelSeen   []reflect.Value // channels handed to reflect.Select by the preempted activation
	vhSelChosen int
	vhDoneChan  reflect.Value
)

// vhSelectModel stands for reflect.Select: any case may fire. It notes where
// the frame's done case is among the cases (wherever the code puts it).
func vhSelectModel(cases []reflect.SelectCase) (int, reflect.Value, bool) {
	if vhSelHook != nil {
		// a preemption point: another activation may run here
		h := vhSelHook
		vhSelHook = nil
		h()
		vhSelSeen = nil
		for _, c := range cases {
			vhSelSeen = append(vhSelSeen, c.Chan)
		}
	}
	vhSelCalls++
	vhSelDoneIdx = -1
	for k := 0; k < len(cases); k++ {
		if cases[k].Dir == reflect.SelectRecv && cases[k].Chan == vhDoneChan {
			vhSelDoneIdx = k
		}
	}
	if vhSelDoneIdx < 0 {
		vhSelDoneAt0 = false
	}
	vhSelChosen = vConcretizeInt(vNondetInt("chosen"), 0, len(cases)-1)
	return vhSelChosen, reflect.ValueOf(true), vNondetBool("recvok")
}

// vhBlockNode builds the statement for vhBlockOp, generates its closure with
// the real generator and returns it with a frame holding its channels.
func vhBlockNode(i *Interpreter) (*node, *frame) {
	boolT := &itype{cat: boolT, rtype: reflect.TypeOf(true)}
	chT := &itype{cat: chanT, val: boolT, rtype: reflect.TypeOf(make(chan bool))}
	next := &node{interp: i, exec: func(*frame) bltn { return nil }}
	fnext := &node{interp: i, exec: func(*frame) bltn { return nil }}
	// frame: slot 0 the channel, slot 1 a bool (value / element), slot 2 a bool (ok), slot 3 result
	f := newFrame(i.frame, 4, i.runid())
	ch := make(chan bool)
	f.data[0] = reflect.ValueOf(ch)
	f.data[1] = reflect.New(boolT.rtype).Elem()
	f.data[2] = reflect.New(boolT.rtype).Elem()
	f.data[3] = reflect.New(boolT.rtype).Elem()
	vhDoneChan = reflect.ValueOf(i.done)
	f.done = reflect.SelectCase{Dir: reflect.SelectRecv, Chan: vhDoneChan}
	chN := &node{interp: i, kind: identExpr, findex: 0, typ: chT}
	var n *node
	switch vhBlockOp {
	case 0, 1:
		n = &node{interp: i, kind: unaryExpr, action: aRecv, findex: 3, typ: boolT, child: []*node{chN}, tnext: next, anc: &node{interp: i, kind: exprStmt}}
		if vhBlockOp == 1 {
			n.fnext = fnext
		}
		recv(n)
	case 2:
		res := &node{interp: i, kind: identExpr, findex: 1, typ: boolT}
		okN := &node{interp: i, kind: identExpr, findex: 2, typ: boolT}
		n = &node{interp: i, kind: unaryExpr, action: aRecv, typ: boolT, child: []*node{chN}, tnext: next}
		n.anc = &node{interp: i, kind: assignXStmt, child: []*node{res, okN, n}}
		recv2(n)
	case 3:
		val := &node{interp: i, kind: identExpr, findex: 1, typ: boolT}
		n = &node{interp: i, kind: sendStmt, action: aSend, child: []*node{chN, val}, tnext: next, anc: &node{interp: i, kind: exprStmt}}
		val.anc = n
		send(n)
	case 4:
		elem := &node{interp: i, kind: identExpr, findex: 1, typ: boolT}
		n = &node{interp: i, kind: rangeStmt, child: []*node{elem, chN}, tnext: next, fnext: fnext}
		rangeChan(n)
	case 5:
		n = vhSelect2(i)
		n.tnext = next
		f.data[1] = reflect.ValueOf(make(chan bool))
		_select(n)
	case 6:
		// select {}: parks the goroutine for ever - unless the evaluation is cancelled
		n = &node{interp: i, kind: selectStmt, tnext: next}
		_select(n)
	}
	return n, f
}

func vh_C09_block() {
	vhResetClock()
	vhStopAt = -1
	i := vhNewInterp()
	i.cancelChan = true
	vhSelCalls, vhSelDoneAt0, vhSelChosen = 0, true, -1
	n, f := vhBlockNode(i)
	vReach("C09.block")
	if !vSymbolic() {
		// native replay: the channel is empty and the evaluation is cancelled:
		// the operation must give up instead of continuing
		close(i.done)
		res := make(chan bltn, 1)
		go func() { res <- n.exec(f) }()
		select {
		case r := <-res:
			vAssert("C09.block.cancel-stops", r == nil)
		case <-time.After(2 * time.Second):
			// still blocked although the evaluation is cancelled
			vAssert("C09.block.cancel-stops", false)
			vAssert("C09.block.no-plain-blocking-call", false)
			vAssert("C09.block.done-is-a-case", false)
		}
		return
	}
	r := n.exec(f)
	vAssert("C09.block.no-plain-blocking-call", vEventCount("blocking:") == 0)
	if vhSelCalls > 0 {
		vAssert("C09.block.done-is-a-case", vhSelDoneAt0)
		if vhSelChosen == vhSelDoneIdx {
			vAssert("C09.block.cancel-stops", r == nil)
		}
	}
}

// select { case <-c0: ; case <-c1: }
func vhSelect2(i *Interpreter) *node {
	n := &node{interp: i, kind: selectStmt}
	for k := 0; k < 2; k++ {
		ch := &node{interp: i, kind: identExpr, findex: k, typ: &itype{cat: chanT}}
		rcv := &node{interp: i, kind: unaryExpr, action: aRecv, child: []*node{ch}}
		ch.anc = rcv
		st := &node{interp: i, kind: exprStmt, child: []*node{rcv}}
		rcv.anc = st
		cl := &node{interp: i, kind: commClause, child: []*node{st}, anc: n}
		st.anc = cl
		n.child = append(n.child, cl)
	}
	return n
}
