package interp

// C04 (narrow): multi-assignment is simultaneous; := gives a fresh slot.
//
// Real code executed from SSA: the assign generator and the closures it
// installs (single, define, multi-define, multi-assign with temporaries),
// genDestValue, genValue, valueGenerator, getFrame.
// Destinations and sources are frame slots chosen by the solver among four
// slots, so every aliasing pattern (swap, rotation, a source that is also an
// earlier destination, repeated destination, blank identifiers) is one model.
// Oracle: the Go specification — all right-hand operands are evaluated first,
// then the assignments happen left to right; a variable declared by := is a
// new variable (a reference taken to the old one keeps its value).

import "reflect"

var (
	vhNAssign = 2 // operands on each side
	vhDefine  = 0 // 1: the statement is a := (short variable declaration)
	vhSlotArr = 0 // 1: the variables are arrays [2]int (value semantics: assignment copies)
)

func vh_C04_assign() {
	vhResetClock()
	vhStopAt = -1
	i := vhNewInterp()
	intT := &itype{cat: intT, rtype: vTypeOfKind(int(reflect.Int))}
	if vhSlotArr == 1 {
		intT = &itype{cat: arrayT, length: 2, val: &itype{cat: intT.cat, rtype: intT.rtype}, rtype: reflect.TypeOf([2]int{})}
	}
	// value of a slot as one number (arrays: both elements must agree with a[0], a[0]+1)
	get := func(v reflect.Value) int64 {
		if vhSlotArr == 1 {
			if v.Index(1).Int() != v.Index(0).Int()+1 {
				return -999999
			}
			return v.Index(0).Int()
		}
		return v.Int()
	}
	put := func(v reflect.Value, x int64) {
		if vhSlotArr == 1 {
			v.Index(0).SetInt(x)
			v.Index(1).SetInt(x + 1)
			return
		}
		v.SetInt(x)
	}
	const m = 4
	f := newFrame(i.frame, m, i.runid())
	var old [m]int64
	var oldRef [m]reflect.Value
	for k := 0; k < m; k++ {
		old[k] = vNondetInt64("slot")
		vAssume(old[k] > -1000 && old[k] < 1000)
		f.data[k] = reflect.New(intT.rtype).Elem()
		put(f.data[k], old[k])
		oldRef[k] = f.data[k] // what a closure that captured the variable earlier holds
	}
	n := &node{interp: i, kind: assignStmt, action: aAssign, nleft: vhNAssign, nright: vhNAssign}
	if vhDefine == 1 {
		n.kind = defineStmt
	}
	var dst, src [3]int
	var blank, redecl [3]bool
	for k := 0; k < vhNAssign; k++ {
		dst[k] = vConcretizeInt(vNondetInt("dst"), 0, m-1)
		blank[k] = vNondetBool("blank")
		if vhDefine == 1 && vhNAssign > 1 {
			// in a := with several variables, some may already exist in the scope: they are assigned
			redecl[k] = vNondetBool("redeclared")
		}
	}
	for k := 0; k < vhNAssign; k++ {
		src[k] = vConcretizeInt(vNondetInt("src"), 0, m-1)
	}
	if vhDefine == 1 {
		// a := statement cannot name a variable twice on its left side
		for a := 0; a < vhNAssign; a++ {
			for b := a + 1; b < vhNAssign; b++ {
				vAssume(blank[a] || blank[b] || dst[a] != dst[b])
			}
		}
		// the slot of a NEW variable is not visible to the right-hand side
		for a := 0; a < vhNAssign; a++ {
			for b := 0; b < vhNAssign; b++ {
				vAssume(blank[a] || redecl[a] || src[b] != dst[a])
			}
		}
	}
	for k := 0; k < vhNAssign; k++ {
		d := &node{interp: i, kind: identExpr, findex: dst[k], typ: intT, anc: n, ident: "v", redeclared: redecl[k]}
		if blank[k] {
			d.ident = "_"
		}
		n.child = append(n.child, d)
	}
	for k := 0; k < vhNAssign; k++ {
		n.child = append(n.child, &node{interp: i, kind: identExpr, findex: src[k], typ: intT, anc: n, ident: "s"})
	}
	n.findex, n.level = dst[0], 0
	assign(n)
	vReach("C04.assign")
	n.exec(f)
	// Go: evaluate all sources first, then assign left to right
	want := old
	var tmp [3]int64
	for k := 0; k < vhNAssign; k++ {
		tmp[k] = old[src[k]]
	}
	for k := 0; k < vhNAssign; k++ {
		if !blank[k] {
			want[dst[k]] = tmp[k]
		}
	}
	ok := true
	for k := 0; k < m; k++ {
		if get(f.data[k]) != want[k] {
			ok = false
		}
	}
	if vhDefine == 1 {
		vAssert("C04.assign.define-simultaneous", ok)
		// a NEW variable is a fresh slot: what captured the old slot keeps its value;
		// a REDECLARED variable is the same variable: what captured it sees the new value
		fresh := true
		for a := 0; a < vhNAssign; a++ {
			if blank[a] {
				continue
			}
			k := dst[a]
			if redecl[a] {
				if get(oldRef[k]) != want[k] {
					fresh = false
				}
			} else if get(oldRef[k]) != old[k] {
				fresh = false
			}
		}
		vAssert("C04.assign.define-fresh", fresh)
	} else {
		vAssert("C04.assign.multi", ok)
	}
}

// "return e1, ..., en" in a function with n results: the results are the
// values the operands had before the statement, also when the operands are
// the (named) result variables themselves ("return b, a").
// Real code: the _return generator and the closure it installs. The result
// variables are frame slots 0..n-1, other variables slots n..3; each operand is
// any of the four slots.
var vhNRet = 2

func vh_C04_return() {
	vhResetClock()
	vhStopAt = -1
	i := vhNewInterp()
	intT := &itype{cat: intT, rtype: vTypeOfKind(int(reflect.Int))}
	const m = 4
	f := newFrame(i.frame, m, i.runid())
	var old [m]int64
	for k := 0; k < m; k++ {
		old[k] = vNondetInt64("slot")
		vAssume(old[k] > -1000 && old[k] < 1000)
		f.data[k] = reflect.New(intT.rtype).Elem()
		f.data[k].SetInt(old[k])
	}
	def := &node{interp: i, kind: funcDecl, typ: &itype{cat: funcT}}
	n := &node{interp: i, kind: returnStmt, val: def}
	var src [3]int
	for k := 0; k < vhNRet; k++ {
		def.typ.ret = append(def.typ.ret, intT)
		src[k] = vConcretizeInt(vNondetInt("src"), 0, m-1)
		n.child = append(n.child, &node{interp: i, kind: identExpr, findex: src[k], typ: intT, anc: n, ident: "s"})
	}
	_return(n)
	vReach("C04.return")
	if n.exec != nil {
		n.exec(f)
	}
	ok := true
	for k := 0; k < vhNRet; k++ {
		if f.data[k].Int() != old[src[k]] {
			ok = false
		}
	}
	vAssert("C04.return.simultaneous", ok)
}

var vhRegistry = map[string]func(){"vh_C04_assign": vh_C04_assign, "vh_C04_return": vh_C04_return}

var vhIntVars = map[string]*int{"vhNAssign": &vhNAssign, "vhDefine": &vhDefine, "vhSlotArr": &vhSlotArr, "vhNRet": &vhNRet}

var vhScenarios = map[string]func(map[string]string) bool{}
