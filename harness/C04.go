package interp

// C04 (narrow): multi-assignment is simultaneous; := gives a fresh slot.
//
// Real code executed from SSA: the assign generator and the closures it
// installs (single, define, multi-define, multi-assign with temporaries),
// genDestValue, genValue, valueGenerator, getFrame.
// Destinations and sources are frame slots chosen by the solver among four
// slots, so every aliasing pattern (swap, rotation, a source that is also an
// earlier destination, repeated destination, blank identifiers) is one model.
// Oracle: the Go specification — all right-hand operands are evaluated first,
// then the assignments happen left to right; a variable declared by := is a
// new variable (a reference taken to the old one keeps its value).

import "reflect"

var (
	vhNAssign = 2 // operands on each side
	vhDefine  = 0 // 1: the statement is a := (short variable declaration)
	vhSlotArr = 0 // 1: the variables are arrays [2]int (value semantics: assignment copies)
)

func vh_C04_assign() {
	vhResetClock()
	vhStopAt = -1
	i := vhNewInterp()
	intT := &itype{cat: intT, rtype: vTypeOfKind(int(reflect.Int))}
	if vhSlotArr == 1 {
		intT = &itype{cat: arrayT, length: 2, val: &itype{cat: intT.cat, rtype: intT.rtype}, rtype: reflect.TypeOf([2]int{})}
	}
	// value of a slot as one number (arrays: both elements must agree with a[0], a[0]+1)
	get := func(v reflect.Value) int64 {
		if vhSlotArr == 1 {
			if v.Index(1).Int() != v.Index(0).Int()+1 {
				return -999999
			}
			return v.Index(0).Int()
		}
		return v.Int()
	}
	put := func(v reflect.Value, x int64) {
		if vhSlotArr == 1 {
			v.Index(0).SetInt(x)
			v.Index(1).SetInt(x + 1)
			return
		}
		v.SetInt(x)
	}
	const m = 4
	f := newFrame(i.frame, m, i.runid())
	var old [m]int64
	var oldRef [m]reflect.Value
	for k := 0; k < m; k++ {
		old[k] = vNondetInt64("slot")
		vAssume(old[k] > -1000 && old[k] < 1000)
		f.data[k] = reflect.New(intT.rtype).Elem()
		put(f.data[k], old[k])
		oldRef[k] = f.data[k] // what a closure that captured the variable earlier holds
	}
	n := &node{interp: i, kind: assignStmt, action: aAssign, nleft: vhNAssign, nright: vhNAssign}
	if vhDefine == 1 {
		n.kind = defineStmt
	}
	var dst, src [3]int
	var blank, redecl [3]bool
	for k := 0; k < vhNAssign; k++ {
		dst[k] = vConcretizeInt(vNondetInt("dst"), 0, m-1)
		blank[k] = vNondetBool("blank")
		if vhDefine == 1 && vhNAssign > 1 {
			// in a := with several variables, some may already exist in the scope: they are assigned
			redecl[k] = vNondetBool("redeclared")
		}
	}
	for k := 0; k < vhNAssign; k++ {
		src[k] = vConcretizeInt(vNondetInt("src"), 0, m-1)
	}
	if vhDefine == 1 {
		// a := statement cannot name a variable twice on its left side
		for a := 0; a < vhNAssign; a++ {
			for b := a + 1; b < vhNAssign; b++ {
				vAssume(blank[a] || blank[b] || dst[a] != dst[b])
			}
		}
		// the slot of a NEW variable is not visible to the right-hand side
		for a := 0; a < vhNAssign; a++ {
			for b := 0; b < vhNAssign; b++ {
				vAssume(blank[a] || redecl[a] || src[b] != dst[a])
			}
		}
	}
	for k := 0; k < vhNAssign; k++ {
		d := &node{interp: i, kind: identExpr, findex: dst[k], typ: intT, anc: n, ident: "v", redeclared: redecl[k]}
		if blank[k] {
			d.ident = "_"
		}
		n.child = append(n.child, d)
	}
	for k := 0; k < vhNAssign; k++ {
		n.child = append(n.child, &node{interp: i, kind: identExpr, findex: src[k], typ: intT, anc: n, ident: "s"})
	}
	n.findex, n.level = dst[0], 0
	assign(n)
	vReach("C04.assign")
	n.exec(f)
	// Go: evaluate all sources first, then assign left to right
	want := old
	var tmp [3]int64
	for k := 0; k < vhNAssign; k++ {
		tmp[k] = old[src[k]]
	}
	for k := 0; k < vhNAssign; k++ {
		if !blank[k] {
			want[dst[k]] = tmp[k]
		}
	}
	ok := true
	for k := 0; k < m; k++ {
		if get(f.data[k]) != want[k] {
			ok = false
		}
	}
	if vhDefine == 1 {
		vAssert("C04.assign.define-simultaneous", ok)
		// a NEW variable is a fresh slot: what captured the old slot keeps its value;
		// a REDECLARED variable is the same variable: what captured it sees the new value
		fresh := true
		for a := 0; a < vhNAssign; a++ {
			if blank[a] {
				continue
			}
			k := dst[a]
			if redecl[a] {
				if get(oldRef[k]) != want[k] {
					fresh = false
				}
			} else if get(oldRef[k]) != old[k] {
				fresh = false
			}
		}
		vAssert("C04.assign.define-fresh", fresh)
	} else {
		vAssert("C04.assign.multi", ok)
	}
}

// "return e1, ..., en" in a function with n results: the results are the
// values the operands had before the statement, also when the operands are
// the (named) result variables themselves ("return b, a").
// Real code: the _return generator and the closure it installs. The result
// variables are frame slots 0..n-1, other variables slots n..3; each operand is
// any of the four slots.
var vhNRet = 2

func vh_C04_return() {
	vhResetClock()
	vhStopAt = -1
	i := vhNewInterp()
	intT := &itype{cat: intT, rtype: vTypeOfKind(int(reflect.Int))}
	const m = 4
	f := newFrame(i.frame, m, i.runid())
	var old [m]int64
	for k := 0; k < m; k++ {
		old[k] = vNondetInt64("slot")
		vAssume(old[k] > -1000 && old[k] < 1000)
		f.data[k] = reflect.New(intT.rtype).Elem()
		f.data[k].SetInt(old[k])
	}
	def := &node{interp: i, kind: funcDecl, typ: &itype{cat: funcT}}
	n := &node{interp: i, kind: returnStmt, val: def}
	var src [3]int
	for k := 0; k < vhNRet; k++ {
		def.typ.ret = append(def.typ.ret, intT)
		src[k] = vConcretizeInt(vNondetInt("src"), 0, m-1)
		n.child = append(n.child, &node{interp: i, kind: identExpr, findex: src[k], typ: intT, anc: n, ident: "s"})
	}
	_return(n)
	vReach("C04.return")
	if n.exec != nil {
		n.exec(f)
	}
	ok := true
	for k := 0; k < vhNRet; k++ {
		if f.data[k].Int() != old[src[k]] {
			ok = false
		}
	}
	vAssert("C04.return.simultaneous", ok)
}

// Slice expressions s[lo:hi], s[lo:], s[:hi], s[:], s[lo:hi:max], s[:hi:max]
// through the real slice / slice0 generators, on a slice of length 3 and
// capacity 5 with any in-range indices: the result has Go's length and
// capacity and shares the backing array (a write through it is visible in s).
var vhSliceForm = 0 // 0 s[lo:], 1 s[lo:hi], 2 s[lo:hi:max], 3 s[:], 4 s[:hi], 5 s[:hi:max]

func vh_C04_slice() {
	vhResetClock()
	vhStopAt = -1
	i := vhNewInterp()
	intT := &itype{cat: intT, rtype: vTypeOfKind(int(reflect.Int))}
	sT := &itype{cat: sliceT, val: intT, rtype: reflect.TypeOf([]int{})}
	backing := make([]int, 3, 5)
	backing[0], backing[1], backing[2] = 10, 11, 12
	f := newFrame(i.frame, 5, i.runid())
	f.data[0] = reflect.ValueOf(backing)
	idx := func(label string, slot int) (int, *node) {
		v := vConcretizeInt(vNondetInt(label), 0, 5)
		f.data[slot] = reflect.New(intT.rtype).Elem()
		f.data[slot].SetInt(int64(v))
		return v, &node{interp: i, kind: identExpr, findex: slot, typ: intT}
	}
	src := &node{interp: i, kind: identExpr, findex: 0, typ: sT}
	n := &node{interp: i, kind: sliceExpr, findex: 4, typ: sT}
	lo, hi, max := 0, 3, 5
	var want []int
	switch vhSliceForm {
	case 0:
		var c *node
		lo, c = idx("lo", 1)
		vAssume(lo <= 3)
		n.child = []*node{src, c}
		slice(n)
		want = backing[lo:]
	case 1:
		var c1, c2 *node
		lo, c1 = idx("lo", 1)
		hi, c2 = idx("hi", 2)
		vAssume(lo <= hi)
		n.child = []*node{src, c1, c2}
		slice(n)
		want = backing[lo:hi]
	case 2:
		var c1, c2, c3 *node
		lo, c1 = idx("lo", 1)
		hi, c2 = idx("hi", 2)
		max, c3 = idx("max", 3)
		vAssume(lo <= hi && hi <= max)
		n.child = []*node{src, c1, c2, c3}
		slice(n)
		want = backing[lo:hi:max]
	case 3:
		n.child = []*node{src}
		slice0(n)
		want = backing[:]
	case 4:
		var c *node
		hi, c = idx("hi", 2)
		n.child = []*node{src, c}
		slice0(n)
		want = backing[:hi]
	default:
		var c2, c3 *node
		hi, c2 = idx("hi", 2)
		max, c3 = idx("max", 3)
		vAssume(hi <= max)
		n.child = []*node{src, c2, c3}
		slice0(n)
		want = backing[:hi:max]
	}
	vReach("C04.slice")
	n.exec(f)
	got := f.data[4]
	vAssert("C04.slice.len-cap", got.Kind() == reflect.Slice && got.Len() == len(want) && got.Cap() == cap(want))
	if len(want) > 0 && got.Kind() == reflect.Slice && got.Len() > 0 {
		got.Index(0).SetInt(77)
		vAssert("C04.slice.shares-backing", want[0] == 77 && backing[:5][lo] == 77)
	}
	// growth: appending within the capacity of the result must not reach beyond it
	if cap(want) > len(want) && got.Kind() == reflect.Slice {
		vAssert("C04.slice.capacity-bounds-append", got.Cap() == cap(want))
	}
}

// A method with a value receiver reached through a pointer (p.m used as a
// function value): the receiver the body works on is a copy of *p. Real code:
// genFunctionWrapper and the function reflect.MakeFunc gets from it. The body
// reads its receiver, then overwrites it.
func vh_C04_recvcopy() {
	vhResetClock()
	vhStopAt = -1
	i := vhNewInterp()
	intT := &itype{cat: intT, rtype: vTypeOfKind(int(reflect.Int))}
	var seen int64
	body := &node{interp: i}
	body.start = body
	body.exec = func(f *frame) bltn {
		seen = f.data[0].Int()
		f.data[0].SetInt(99999)
		vhSteps++
		return nil
	}
	blk := &node{interp: i, start: body}
	def := &node{interp: i, kind: funcDecl, typ: &itype{cat: funcT, rtype: reflect.TypeOf(func() {})}, types: []reflect.Type{intT.rtype}}
	def.child = []*node{{interp: i}, {interp: i, ident: "m"}, {interp: i}, blk}
	def.val = def
	x := vNondetInt("x")
	vAssume(x > -1000 && x < 1000)
	px := &node{interp: i, kind: identExpr, findex: 0, typ: &itype{cat: ptrT, val: intT, rtype: reflect.TypeOf((*int)(nil))}}
	use := &node{interp: i, kind: selectorExpr, findex: notInFrame, val: def, typ: def.typ, recv: &receiver{node: px}}
	f := newFrame(i.frame, 1, i.runid())
	f.data[0] = reflect.ValueOf(&x)
	w := genFunctionWrapper(use)(f)
	vReach("C04.recvcopy")
	w.Call(nil)
	vAssert("C04.recvcopy.body-sees-value", vhSteps == 1 && seen == int64(x))
	vAssert("C04.recvcopy.original-untouched", x != 99999)
}

var vhRegistry = map[string]func(){"vh_C04_recvcopy": vh_C04_recvcopy, "vh_C04_slice": vh_C04_slice, "vh_C04_assign": vh_C04_assign, "vh_C04_return": vh_C04_return}

var vhIntVars = map[string]*int{"vhNAssign": &vhNAssign, "vhDefine": &vhDefine, "vhSlotArr": &vhSlotArr, "vhNRet": &vhNRet, "vhSliceForm": &vhSliceForm}

var vhScenarios = map[string]func(map[string]string) bool{}
