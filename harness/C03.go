package interp

// C03: constant semantics (integer, string and boolean constants).
//
// Real code executed from SSA: representableConst, isInt/isUint/isFloat/...,
// the bitlen table, addConst, subConst, mulConst, quoConst, remConst,
// shlConst, shrConst, negConst, posConst, notConst, convertConstantValue,
// vConstantValue, vUint, isConstantValue, (*itype).TypeOf/refType.
// go/constant is modelled on unbounded integers (SMT Int); reflect by the
// engine's reflect model. Integer magnitudes are NOT bounded.

import (
	"errors"
	"go/constant"
	"reflect"
)

var vhKind = int(reflect.Int8) // the target kind of the obligation (set by the driver)

func vh_C03_repr_int() {
	k := reflect.Kind(vhKind)
	t := vTypeOfKind(vhKind)
	x := vBigNondet("x")
	c := vConstOfBig(x)
	vReach("C03.repr.int")
	got := representableConst(c, t)
	want := vBigLe(vKindMin(k), x) && vBigLe(x, vKindMax(k))
	vAssert("C03.repr.int", got == want)
}

// a constant of another kind is never representable as an integer type unless
// it has an exact integer value; strings and booleans only as their own kind
func vh_C03_repr_other() {
	t := vTypeOfKind(vhKind)
	s := constant.MakeString(vNondetString("s"))
	b := constant.MakeBool(vNondetBool("b"))
	vReach("C03.repr.other")
	vAssert("C03.repr.other", representableConst(s, t) == (reflect.Kind(vhKind) == reflect.String))
	vAssert("C03.repr.other", representableConst(b, t) == (reflect.Kind(vhKind) == reflect.Bool))
}

// ---- folding of untyped integer constants ---------------------------------

var vhOp = 0

func vhConstNode(c constant.Value) *node {
	return &node{rval: reflect.ValueOf(c), typ: &itype{cat: intT, untyped: true, rtype: vTypeOfKind(int(reflect.Int))}}
}

func vh_C03_fold() {
	x, y := vBigNondet("x"), vBigNondet("y")
	n := &node{typ: &itype{cat: intT, untyped: true, rtype: vTypeOfKind(int(reflect.Int))}}
	n.child = []*node{vhConstNode(vConstOfBig(x)), vhConstNode(vConstOfBig(y))}
	var want vBig
	panicked := false
	divides := false
	vReach("C03.fold")
	func() {
		defer func() {
			if recover() != nil {
				panicked = true
			}
		}()
		switch vhOp {
		case 0:
			addConst(n)
			want = vBigAdd(x, y)
		case 1:
			subConst(n)
			want = vBigSub(x, y)
		case 2:
			mulConst(n)
			want = vBigMul(x, y)
		case 3:
			divides = true
			quoConst(n)
		case 4:
			divides = true
			remConst(n)
		case 5:
			n.child = n.child[:1]
			negConst(n)
			want = vBigNeg(x)
		case 6:
			n.child = n.child[:1]
			posConst(n)
			want = x
		case 7:
			// ^x on an untyped integer constant is -x-1 (unbounded two's complement)
			n.child = n.child[:1]
			bitNotConst(n)
			want = vBigSub(vBigNeg(x), vBigInt64(1))
		}
	}()
	if divides {
		// x/0 is rejected (go/constant panics, which the compiler reports); otherwise truncated division
		vAssert("C03.fold.div-by-zero-rejected", panicked == vBigEq(y, vBigInt64(0)))
		if panicked {
			return
		}
		if vhOp == 3 {
			want = vBigQuo(x, y)
			// go/constant (and therefore the Go compiler and go/types, the reference of
			// this property) divides int64-sized operands with machine arithmetic:
			// MinInt64 / -1 is MinInt64. The reference is the toolchain, not the ideal quotient.
			minI := vBigNeg(vBigPow2(63))
			if vBigEq(x, minI) && vBigEq(y, vBigInt64(-1)) {
				want = minI
			}
		} else {
			want = vBigRem(x, y)
		}
	} else {
		vAssert("C03.fold.no-panic", !panicked)
		if panicked {
			return
		}
	}
	got, ok := n.rval.Interface().(constant.Value)
	vAssert("C03.fold.result-is-constant", ok && vConstKindIs(got, int(constant.Int)))
	if ok && vConstKindIs(got, int(constant.Int)) {
		vAssert("C03.fold.exact", vBigEq(vBigOfConst(got), want))
	}
}

// bitwise folding on constants in [0, 2^64): and, or, xor, andNot
func vh_C03_bitwise() {
	// operands are drawn as 64-bit patterns (bit-vector encoding)
	ux, uy := vNondetUint64("x"), vNondetUint64("y")
	n := &node{typ: &itype{cat: intT, untyped: true, rtype: vTypeOfKind(int(reflect.Int))}}
	n.child = []*node{vhConstNode(constant.MakeUint64(ux)), vhConstNode(constant.MakeUint64(uy))}
	var want uint64
	vReach("C03.bitwise")
	switch vhOp {
	case 0:
		andConst(n)
		want = ux & uy
	case 1:
		orConst(n)
		want = ux | uy
	case 2:
		xorConst(n)
		want = ux ^ uy
	case 3:
		andNotConst(n)
		want = ux &^ uy
	}
	got, ok := n.rval.Interface().(constant.Value)
	vAssert("C03.fold.bitwise", ok && vConstKindIs(got, int(constant.Int)) && vBigEq(vBigOfConst(got), vBigUint64(want)))
}

// shifts: x << s, x >> s with an untyped constant x and a count 0..64
func vh_C03_shift() {
	x := vBigNondet("x")
	s := vNondetInt("s")
	vAssume(s >= 0)
	vAssume(s <= 64)
	sc := vConcretizeInt(s, 0, 64)
	n := &node{typ: &itype{cat: intT, untyped: true, rtype: vTypeOfKind(int(reflect.Int))}}
	cnt := &node{rval: reflect.ValueOf(uint(sc)), typ: &itype{cat: uintT, rtype: vTypeOfKind(int(reflect.Uint))}}
	n.child = []*node{vhConstNode(vConstOfBig(x)), cnt}
	vReach("C03.shift")
	var want vBig
	if vhOp == 0 {
		shlConst(n)
		want = vBigMul(x, vBigPow2(sc))
	} else {
		shrConst(n)
		// arithmetic shift = floor division
		q := vBigQuo(x, vBigPow2(sc))
		if vBigLt(x, vBigInt64(0)) && !vBigEq(vBigMul(q, vBigPow2(sc)), x) {
			q = vBigSub(q, vBigInt64(1))
		}
		want = q
	}
	got, ok := n.rval.Interface().(constant.Value)
	vAssert("C03.shift.exact", ok && vBigEq(vBigOfConst(got), want))
}

// ---- materialisation: a representable constant keeps its value ------------

func vh_C03_materialise() {
	k := reflect.Kind(vhKind)
	x := vBigNondet("x")
	vAssume(vBigLe(vKindMin(k), x) && vBigLe(x, vKindMax(k)))
	n := &node{interp: vhNewInterp(), rval: reflect.ValueOf(vConstOfBig(x)), typ: &itype{cat: intT, rtype: vTypeOfKind(vhKind)}}
	panicked := false
	vReach("C03.materialise")
	func() {
		defer func() {
			if recover() != nil {
				panicked = true
			}
		}()
		convertConstantValue(n)
	}()
	// known: constants above MaxInt64 go through constant.Int64Val and are rejected ("overflows int64")
	vKnown("C03.uint64-above-maxint64", vBigLt(vBigSub(vBigPow2(63), vBigInt64(1)), x))
	vAssert("C03.materialise.no-panic", !panicked)
	if panicked {
		return
	}
	var got vBig
	switch k {
	case reflect.Int, reflect.Int8, reflect.Int16, reflect.Int32, reflect.Int64:
		got = vBigInt64(n.rval.Int())
	default:
		got = vBigUint64(n.rval.Uint())
	}
	vAssert("C03.materialise.kind", n.rval.Kind() == k)
	vAssert("C03.materialise.value", vBigEq(got, x))
}

// ---- folding of typed integer constants -------------------------------------
//
// Operands of a typed constant expression are values of the type itself
// (const a uint8 = 200 is a reflect uint8); the *Const functions compute in the
// type, where arithmetic wraps, and constOverflow (called by cfg right after
// the folding, a sequence this harness repeats) must reject exactly the
// expressions whose exact value does not fit the type, as go/types does.

func vhTypedOperand(k reflect.Kind, label string) (reflect.Value, vBig) {
	switch k {
	case reflect.Int:
		x := vNondetInt(label)
		return reflect.ValueOf(x), vBigInt64(int64(x))
	case reflect.Int8:
		x := vNondetInt8(label)
		return reflect.ValueOf(x), vBigInt64(int64(x))
	case reflect.Int16:
		x := vNondetInt16(label)
		return reflect.ValueOf(x), vBigInt64(int64(x))
	case reflect.Int32:
		x := vNondetInt32(label)
		return reflect.ValueOf(x), vBigInt64(int64(x))
	case reflect.Int64:
		x := vNondetInt64(label)
		return reflect.ValueOf(x), vBigInt64(x)
	case reflect.Uint:
		x := vNondetUint(label)
		return reflect.ValueOf(x), vBigUint64(uint64(x))
	case reflect.Uint8:
		x := vNondetUint8(label)
		return reflect.ValueOf(x), vBigUint64(uint64(x))
	case reflect.Uint16:
		x := vNondetUint16(label)
		return reflect.ValueOf(x), vBigUint64(uint64(x))
	case reflect.Uint32:
		x := vNondetUint32(label)
		return reflect.ValueOf(x), vBigUint64(uint64(x))
	case reflect.Uint64:
		x := vNondetUint64(label)
		return reflect.ValueOf(x), vBigUint64(x)
	}
	x := uintptr(vNondetUint64(label))
	return reflect.ValueOf(x), vBigUint64(uint64(x))
}

func vmCfgErrorf(n *node, format string, a ...interface{}) *cfgError {
	return &cfgError{n, errors.New("constant overflows its type")}
}

var vhTypedActs = []action{aAdd, aSub, aMul, aQuo, aShl, aNeg, aRem, aAnd, aOr, aXor, aAndNot, aShr, aBitNot}

func vh_C03_fold_typed() {
	k := reflect.Kind(vhKind)
	act := vhTypedActs[vhOp]
	xv, x := vhTypedOperand(k, "x")
	yv, y := vhTypedOperand(k, "y")
	typ := &itype{cat: intT, rtype: vTypeOfKind(vhKind)}
	n := &node{interp: vhNewInterp(), typ: typ, action: act}
	n.child = []*node{{rval: xv, typ: typ}, {rval: yv, typ: typ}}
	var want vBig
	sc := 0
	switch act {
	case aAdd:
		want = vBigAdd(x, y)
	case aSub:
		want = vBigSub(x, y)
	case aMul:
		want = vBigMul(x, y)
	case aQuo, aRem:
		vAssume(!vBigEq(y, vBigInt64(0))) // division by zero is rejected by the type check before folding
		if act == aQuo {
			want = vBigQuo(x, y)
			// the toolchain (go/constant) divides int64-sized operands with machine
			// arithmetic: MinInt64 / -1 is MinInt64 (see vh_C03_fold); it is the reference
			minI := vBigNeg(vBigPow2(63))
			if vBigEq(x, minI) && vBigEq(y, vBigInt64(-1)) {
				want = minI
			}
		} else {
			want = vBigRem(x, y)
		}
	case aShl, aShr:
		// the count is an unsigned constant 0..70
		s := vNondetInt("s")
		vAssume(s >= 0)
		vAssume(s <= 70)
		sc = vConcretizeInt(s, 0, 70)
		n.child[1] = &node{rval: reflect.ValueOf(uint(sc)), typ: &itype{cat: uintT, rtype: vTypeOfKind(int(reflect.Uint))}}
		if act == aShl {
			want = vBigMul(x, vBigPow2(sc))
		} else {
			q := vBigQuo(x, vBigPow2(sc))
			if vBigLt(x, vBigInt64(0)) && !vBigEq(vBigMul(q, vBigPow2(sc)), x) {
				q = vBigSub(q, vBigInt64(1))
			}
			want = q
		}
	case aNeg:
		n.child = n.child[:1]
		want = vBigNeg(x)
	case aBitNot:
		// ^x of a typed constant: the complement within the type
		n.child = n.child[:1]
		if vBigLt(vKindMin(k), vBigInt64(0)) {
			want = vBigSub(vBigNeg(x), vBigInt64(1))
		} else {
			want = vBigSub(vKindMax(k), x)
		}
	default:
		// and, or, xor, andNot never leave the type: only the absence of an error is asserted
		want = vBigInt64(0)
	}
	fits := vBigLe(vKindMin(k), want) && vBigLe(want, vKindMax(k))
	vReach("C03.typed")
	constOp[act](n)
	err := constOverflow(n)
	switch act {
	case aAnd, aOr, aXor, aAndNot:
		vAssert("C03.typed.no-spurious-overflow", err == nil)
		return
	}
	vAssert("C03.typed.overflow-rejected", fits || err != nil)
	vAssert("C03.typed.no-spurious-overflow", !fits || err == nil)
	if fits && err == nil {
		var got vBig
		switch k {
		case reflect.Int, reflect.Int8, reflect.Int16, reflect.Int32, reflect.Int64:
			got = vBigInt64(n.rval.Int())
		default:
			got = vBigUint64(n.rval.Uint())
		}
		vAssert("C03.typed.value", n.rval.Kind() == k && vBigEq(got, want))
	}
}

// Untyped constant operands under a typed context ("var z int64 = 1<<63 - 1":
// cfg gives the sub-expressions the type of the destination before folding):
// the folding stays exact on go/constant values and constOverflow must NOT
// reject an intermediate value - only the final value has to fit, which the
// conversion checks. (My first version of constOverflow rejected these valid
// programs; a sub-agent noticed; this obligation pins the repaired behaviour.)
func vh_C03_fold_context() {
	k := reflect.Kind(vhKind)
	act := vhTypedActs[vhOp]
	x, y := vBigNondet("x"), vBigNondet("y")
	typ := &itype{cat: intT, rtype: vTypeOfKind(vhKind)}
	n := &node{interp: vhNewInterp(), typ: typ, action: act}
	n.child = []*node{vhConstNode(vConstOfBig(x)), vhConstNode(vConstOfBig(y))}
	var want vBig
	switch act {
	case aAdd:
		want = vBigAdd(x, y)
	case aSub:
		want = vBigSub(x, y)
	case aMul:
		want = vBigMul(x, y)
	case aShl:
		s := vNondetInt("s")
		vAssume(s >= 0)
		vAssume(s <= 70)
		sc := vConcretizeInt(s, 0, 70)
		// the count has been converted to uint by the shift rule
		n.child[1] = &node{rval: reflect.ValueOf(uint(sc)), typ: &itype{cat: uintT, rtype: vTypeOfKind(int(reflect.Uint))}}
		want = vBigMul(x, vBigPow2(sc))
	case aNeg:
		n.child = n.child[:1]
		want = vBigNeg(x)
	default:
		return
	}
	_ = k
	vReach("C03.context")
	constOp[act](n)
	err := constOverflow(n)
	vAssert("C03.context.intermediate-not-rejected", err == nil)
	got, ok := n.rval.Interface().(constant.Value)
	vAssert("C03.context.exact", ok && vConstKindIs(got, int(constant.Int)) && vBigEq(vBigOfConst(got), want))
}

// The same through the real compile pass: "a OP b" with two typed constants of
// kind K (symbols of the scope, any values) is compiled by (*Interpreter).cfg;
// the pass must fail exactly when the exact result leaves the type. This covers
// the call site of constOverflow in cfg.go, not only the function.
func vh_C03_cfg_typed() {
	k := reflect.Kind(vhKind)
	in := vhNewInterp()
	in.universe = initUniverse()
	sc := in.universe.push(false)
	typ := in.universe.getType(map[reflect.Kind]string{reflect.Int: "int", reflect.Int8: "int8", reflect.Int16: "int16", reflect.Int32: "int32", reflect.Int64: "int64",
		reflect.Uint: "uint", reflect.Uint8: "uint8", reflect.Uint16: "uint16", reflect.Uint32: "uint32", reflect.Uint64: "uint64", reflect.Uintptr: "uintptr"}[k])
	xv, x := vhTypedOperand(k, "x")
	yv, y := vhTypedOperand(k, "y")
	sc.sym["a"] = &symbol{kind: constSym, typ: typ, rval: xv}
	sc.sym["b"] = &symbol{kind: constSym, typ: typ, rval: yv}
	mk := func(kind nkind, act action) *node {
		var i interface{}
		n := &node{interp: in, kind: kind, action: act, val: &i, gen: builtin[act]}
		n.start = n
		return n
	}
	a, b := mk(identExpr, aNop), mk(identExpr, aNop)
	a.ident, b.ident = "a", "b"
	act := []action{aAdd, aSub, aMul}[vhOp]
	n := mk(binaryExpr, act)
	n.child = []*node{a, b}
	a.anc, b.anc = n, n
	stmt := mk(exprStmt, aNop)
	stmt.child = []*node{n}
	n.anc = stmt
	blk := mk(blockStmt, aNop)
	blk.child = []*node{stmt}
	stmt.anc = blk
	var want vBig
	switch act {
	case aAdd:
		want = vBigAdd(x, y)
	case aSub:
		want = vBigSub(x, y)
	default:
		want = vBigMul(x, y)
	}
	fits := vBigLe(vKindMin(k), want) && vBigLe(want, vKindMax(k))
	vReach("C03.cfg")
	_, err := in.cfg(blk, sc, "main", "main")
	vAssert("C03.cfg.overflow-rejected", fits || err != nil)
	vAssert("C03.cfg.no-spurious-overflow", !fits || err == nil)
}

var vhRegistry = map[string]func(){
	"vh_C03_cfg_typed": vh_C03_cfg_typed, "vh_C03_fold_typed": vh_C03_fold_typed, "vh_C03_fold_context": vh_C03_fold_context,
	"vh_C03_repr_int": vh_C03_repr_int, "vh_C03_repr_other": vh_C03_repr_other, "vh_C03_fold": vh_C03_fold,
	"vh_C03_shift": vh_C03_shift, "vh_C03_bitwise": vh_C03_bitwise, "vh_C03_materialise": vh_C03_materialise, "vv_models": vv_models,
}

var vhIntVars = map[string]*int{"vhKind": &vhKind, "vhOp": &vhOp}

var vhScenarios = map[string]func(map[string]string) bool{}
