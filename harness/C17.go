package interp

// C17 harnesses: file selection by build constraints.
//
// Real code executed symbolically: skipFile, buildLineOk, buildOptionOk,
// buildTagOk, goMinorVersion, contains, setYaegiTags, buildOk (with the
// parser step replaced, see vmParseFile).
// Oracle: the go/build rules, restated below as vm* functions for the
// solver, and natively *the real* go/build.Context.MatchFile (vh* functions);
// the restatement is validated against MatchFile natively on every run.

import (
	"go/ast"
	"go/build"
	"go/parser"
	"go/token"
	"io"
	"strconv"
	"strings"
)

// go/build's lists (go1.23 src/go/build/syslist.go); validated natively.
var vhKnownOS = map[string]bool{
	"aix": true, "android": true, "darwin": true, "dragonfly": true, "freebsd": true, "hurd": true,
	"illumos": true, "ios": true, "js": true, "linux": true, "nacl": true, "netbsd": true,
	"openbsd": true, "plan9": true, "solaris": true, "wasip1": true, "windows": true, "zos": true,
}

var vhKnownArch = map[string]bool{
	"386": true, "amd64": true, "amd64p32": true, "arm": true, "armbe": true, "arm64": true, "arm64be": true,
	"loong64": true, "mips": true, "mipsle": true, "mips64": true, "mips64le": true, "mips64p32": true,
	"mips64p32le": true, "ppc": true, "ppc64": true, "ppc64le": true, "riscv": true, "riscv64": true,
	"s390": true, "s390x": true, "sparc": true, "sparc64": true, "wasm": true,
}

var vhUnixOS = map[string]bool{
	"aix": true, "android": true, "darwin": true, "dragonfly": true, "freebsd": true, "hurd": true,
	"illumos": true, "ios": true, "linux": true, "netbsd": true, "openbsd": true, "solaris": true,
}

const vhTagChars = "abcdefghijklmnopqrstuvwxyz0123456789_."

// vhCtx builds the interpreter's build context from symbolic inputs:
// GOOS/GOARCH any known value, release go1.<minor>, ntags custom build tags.
// Compiler, cgo and tool tags are empty (outside the claim).
func vhCtx(ntags int) *build.Context {
	goos := vNondetString("goos")
	goarch := vNondetString("goarch")
	vAssume(vhKnownOS[goos])
	vAssume(vhKnownArch[goarch])
	// the release number is drawn as its decimal text (1..99, canonical)
	ms := vNondetWord("minor", "0123456789", 2)
	vAssume(len(ms) >= 1)
	vAssume(ms[0] != '0')
	ctx := &build.Context{GOOS: goos, GOARCH: goarch}
	ctx.ReleaseTags = vhReleaseTags(ms)
	for i := 0; i < ntags; i++ {
		t := vNondetString("tag")
		vAssume(len(t) >= 1)
		vAssume(len(t) <= 8)
		vAssume(vInCharset(t, vhTagChars))
		ctx.BuildTags = append(ctx.BuildTags, t)
	}
	return ctx
}

// vhReleaseTags natively yields go1.1..go1.minor as the toolchain does.
// Symbolically (vmReleaseTags) only the last element is materialised, which
// is the only one yaegi reads; the oracle uses the numeric rule.
func vhReleaseTags(ms string) []string {
	minor, _ := strconv.Atoi(ms)
	var r []string
	for i := 1; i <= minor; i++ {
		r = append(r, "go1."+strconv.Itoa(i))
	}
	return r
}

func vmReleaseTags(ms string) []string {
	return []string{"go1.1", "go1." + ms}
}

func vhMinor(ctx *build.Context) int {
	last := ctx.ReleaseTags[len(ctx.ReleaseTags)-1]
	n, _ := strconv.Atoi(last[4:])
	return n
}

// ---------------------------------------------------------------------
// oracle, native: the real go/build

type vhMemFile struct{ *strings.Reader }

func (vhMemFile) Close() error { return nil }

func vhMatchFile(ctx *build.Context, name, content string) bool {
	c := *ctx
	c.OpenFile = func(path string) (io.ReadCloser, error) {
		return vhMemFile{strings.NewReader(content)}, nil
	}
	ok, err := c.MatchFile("/vdir", name)
	if err != nil {
		return false
	}
	return ok
}

// vhNameMatch: does the toolchain select a Go file of this name (no
// constraint header)? skipTest excludes _test files as yaegi's caller asks.
func vhNameMatch(ctx *build.Context, name string, skipTest bool) bool {
	if !strings.HasSuffix(name, ".go") {
		return false
	}
	if skipTest && strings.HasSuffix(name, "_test.go") {
		return false
	}
	return vhMatchFile(ctx, name, "package x\n")
}

// vhLineMatch: does the toolchain select a file whose only constraint is
// the comment "// " + line ?
func vhLineMatch(ctx *build.Context, line string) bool {
	return vhMatchFile(ctx, "x.go", "// "+line+"\n\npackage x\n")
}

// vhHeaderMatch: file with an optional //go:build line and +build lines.
func vhHeaderMatch(ctx *build.Context, gobuild string, hasGoBuild bool, lines []string) bool {
	var sb strings.Builder
	if hasGoBuild {
		sb.WriteString("//go:build " + gobuild + "\n")
	}
	for _, l := range lines {
		sb.WriteString("// " + l + "\n")
	}
	sb.WriteString("\npackage x\n")
	return vhMatchFile(ctx, "x.go", sb.String())
}

// ---------------------------------------------------------------------
// oracle, restated for the solver (validated against the above natively)

func vmMatchTag(ctx *build.Context, name string) bool {
	r := vOr(name == ctx.GOOS, name == ctx.GOARCH)
	r = vOr(r, vAnd(ctx.GOOS == "android", name == "linux"))
	r = vOr(r, vAnd(ctx.GOOS == "illumos", name == "solaris"))
	r = vOr(r, vAnd(ctx.GOOS == "ios", name == "darwin"))
	r = vOr(r, vAnd(name == "unix", vhUnixOS[ctx.GOOS]))
	for _, t := range ctx.BuildTags {
		r = vOr(r, t == name)
	}
	if r {
		return true
	}
	// release tags go1.1 .. go1.<minor>
	if strings.HasPrefix(name, "go1.") {
		d := name[4:]
		if vmIsCanonicalNumber(d) {
			n, err := strconv.Atoi(d)
			if err == nil && n >= 1 && n <= vhMinor(ctx) {
				return true
			}
		}
	}
	return false
}

// canonical decimal: digits only, no leading zero, no sign (what Itoa prints)
func vmIsCanonicalNumber(d string) bool {
	if d == "" {
		return false
	}
	if strings.IndexFunc(d, func(c rune) bool { return c < '0' || c > '9' }) >= 0 {
		return false
	}
	return d[0] != '0'
}

func vmNameMatch(ctx *build.Context, name string, skipTest bool) bool {
	if !strings.HasSuffix(name, ".go") {
		return false
	}
	if strings.HasPrefix(name, "_") || strings.HasPrefix(name, ".") {
		return false
	}
	if skipTest && strings.HasSuffix(name, "_test.go") {
		return false
	}
	// goodOSArchFile
	if i := strings.Index(name, "."); i >= 0 {
		name = name[:i]
	}
	i := strings.Index(name, "_")
	if i < 0 {
		return true
	}
	name = name[i:]
	l := strings.Split(name, "_")
	n := len(l)
	if n > 0 && l[n-1] == "test" {
		l = l[:n-1]
		n--
	}
	if n >= 2 && vhKnownOS[l[n-2]] && vhKnownArch[l[n-1]] {
		if !vmMatchTag(ctx, l[n-1]) {
			return false
		}
		return vmMatchTag(ctx, l[n-2])
	}
	if n >= 1 && (vhKnownOS[l[n-1]] || vhKnownArch[l[n-1]]) {
		return vmMatchTag(ctx, l[n-1])
	}
	return true
}

func vmIsValidTag(w string) bool {
	if w == "" {
		return false
	}
	// harness alphabet is ASCII: letters, digits, '_' and '.' are valid
	return vInCharset(w, "abcdefghijklmnopqrstuvwxyzABCDEFGHIJKLMNOPQRSTUVWXYZ0123456789_.")
}

func vmLitOk(ctx *build.Context, lit string) bool {
	if strings.HasPrefix(lit, "!!") || lit == "!" {
		return vmMatchTag(ctx, "ignore")
	}
	neg := false
	if strings.HasPrefix(lit, "!") {
		neg = true
		lit = lit[1:]
	}
	var z bool
	if vmIsValidTag(lit) {
		z = vmMatchTag(ctx, lit)
	} else {
		z = vmMatchTag(ctx, "ignore")
	}
	if neg {
		z = !z
	}
	return z
}

// vmPlusBuildExprOk evaluates the text after "+build" (space = OR, comma = AND).
// The harness alphabet has ' ' as its only white space.
func vmPlusBuildExprOk(ctx *build.Context, text string) bool {
	any := false
	res := false
	for _, clause := range strings.Split(text, " ") {
		if clause == "" {
			continue
		}
		any = true
		y := true
		for _, lit := range strings.Split(clause, ",") {
			if !vmLitOk(ctx, lit) {
				y = false
			}
		}
		if y {
			res = true
		}
	}
	if !any {
		return vmMatchTag(ctx, "ignore")
	}
	return res
}

// vmLineMatch: the comment is "// " + line; it constrains the file only when
// it is a +build line in the sense of constraint.IsPlusBuild.
func vmLineMatch(ctx *build.Context, line string) bool {
	t := strings.TrimSpace(line)
	if !strings.HasPrefix(t, "+build") {
		return true
	}
	rest := t[6:]
	if rest != "" && rest[0] != ' ' {
		return true
	}
	return vmPlusBuildExprOk(ctx, strings.TrimSpace(rest))
}

// ---------------------------------------------------------------------
// harnesses
//
// Inputs are *shaped*: the driver fixes the number of '_'-separated words,
// whether a further dotted segment precedes ".go", the number of options and
// tags of a +build line; the words themselves are unconstrained strings over
// their alphabet. Every split of the real code then resolves structurally
// and the solver is left with equalities between words and table entries.

const vhWordChars = "abcdefghijklmnopqrstuvwxyz0123456789"

var (
	vhNParts  = 3  // '_'-separated words in the first dotted segment
	vhDotSeg  = 0  // 1: a further ".word", 2: ".word_word" before ".go"
	vhWordMax = 11 // bytes per word ("mips64p32le")
	vhNoGo    = 0  // 1: arbitrary name that does not end in ".go"
)

func vhShapedName() string {
	if vhNoGo == 1 {
		n := vNondetWord("name", vhWordChars+"_.", vhWordMax)
		vAssume(!vHasSuffix(n, ".go"))
		return n
	}
	name := vNondetWord("w", vhWordChars, vhWordMax)
	for i := 1; i < vhNParts; i++ {
		name += "_" + vNondetWord("w", vhWordChars, vhWordMax)
	}
	switch vhDotSeg {
	case 1:
		name += "." + vNondetWord("seg", vhWordChars, vhWordMax)
	case 2:
		name += "." + vNondetWord("seg", vhWordChars, vhWordMax) + "_" + vNondetWord("seg", vhWordChars, vhWordMax)
	}
	return name + ".go"
}

func vh_C17_name() {
	ctx := vhCtx(1)
	name := vhShapedName()
	skipTest := vNondetBool("skipTest")
	vReach("C17.name")
	got := skipFile(ctx, name, skipTest)
	want := !vhNameMatch(ctx, name, skipTest)
	vAssert("C17.name", got == want)
}

const vhTagWordChars = "abcdefghijklmnopqrstuvwxyz0123456789_."

var (
	vhLineKind = 0 // 0: "+build" + options; 1: bare "+build"; 2: "+build" glued to a word; 3: a line without "+build"
	vhNOpts    = 1 // space-separated options
	vhNTags    = 1 // comma-separated tags per option
	vhGapAt    = -1 // option index after which the separator is two spaces (-1: never)
	vhTagKind  = -1 // >= 0: every tag of the line is of this kind (the driver splits the work), -1: any mix
)

// vhTagWord: a generic word that is not of the form go1.*, or "go1." followed
// by up to two digits (possibly none, possibly with a leading zero), or "go1."
// followed by non-digit junk, or a malformed word (containing '-', '=' or '/').
func vhTagWord() string {
	if vhHdrSimple == 1 {
		return vNondetWordN("t", vhTagWordChars, 1, 8)
	}
	kind := vhTagKind
	if kind < 0 {
		kind = vConcretizeInt(vNondetInt("tagkind"), 0, 3)
	}
	switch kind {
	case 3:
		// a malformed tag: some byte is not a letter, digit, '_' or '.'
		w := vNondetWord("bad", "ab_-=/", 4)
		vAssume(!vInCharset(w, vhTagWordChars))
		return w
	case 1:
		return "go1." + vNondetWord("rel", "0123456789", 2)
	case 2:
		return "go1." + vNondetWord("junk", "abcdefghijklmnopqrstuvwxyz_.", 2)
	}
	t := vNondetWord("t", vhTagWordChars, 8)
	vAssume(!vHasPrefix(t, "go1."))
	return t
}

func vhShapedLine() string {
	switch vhLineKind {
	case 1:
		return "+build"
	case 2:
		return "+build" + vNondetWord("glue", vhTagWordChars+"!,", 6)
	case 3:
		l := vNondetWord("other", vhTagWordChars+"!, +", 10)
		vAssume(!vHasPrefix(l, "+build"))
		vAssume(!vHasPrefix(l, " "))
		vAssume(!vHasSuffix(l, " "))
		return l
	}
	line := "+build"
	for i := 0; i < vhNOpts; i++ {
		line += " "
		if i == vhGapAt {
			line += " "
		}
		for j := 0; j < vhNTags; j++ {
			if j > 0 {
				line += ","
			}
			switch vConcretizeInt(vNondetInt("bangs"), 0, 2) {
			case 1:
				line += "!"
			case 2:
				line += "!!"
			}
			line += vhTagWord()
		}
	}
	// CommentGroup.Text trims trailing blanks of a line
	vAssume(!vHasSuffix(line, " "))
	return line
}

func vh_C17_line() {
	ctx := vhCtx(1)
	line := vhShapedLine()
	vReach("C17.line")
	panicked := false
	got := false
	func() {
		defer func() {
			if recover() != nil {
				panicked = true
			}
		}()
		got = buildLineOk(ctx, line)
	}()
	vAssert("C17.line.no-panic", !panicked)
	if !panicked {
		want := vhLineMatch(ctx, line)
		vAssert("C17.line", got == want)
	}
}

// ---------------------------------------------------------------------
// constraint header: an optional //go:build line followed by 0..2 +build
// lines in one comment group, a blank line, the package clause.
//
// buildOk is the real code. Symbolically the parser step is replaced by
// vmParseFile (the comment list the real parser returns for this header
// shape) and CommentGroup.Text by vmCommentText; both are compared with the
// real go/parser natively in TestVerifValidateC17. go/build/constraint is
// modelled in the engine (tokenizer, precedence, evaluation of every tag).

var (
	vhHasGoBuild = 1 // 1: a //go:build line heads the group
	vhExprShape  = 0 // see vhShapedExpr
	vhNPlusLines = 0 // +build lines after it (or alone)
	vhDocGroup   = 0 // 1: a further plain comment group precedes the header
	vhHdrSimple  = 0 // 1: tags are plain words (structure obligations: tag matching is an uninterpreted predicate)
)

// vmMatchPred stands for "the build context satisfies this tag" in the
// structure obligations: the real matchBuildTag and the restated rule
// vmMatchTag are both redirected to it (their agreement is the tag-level
// obligation).
func vmMatchPred(ctx *build.Context, name string) bool { return vPred("tagok", name) }

var (
	vhHdrTags     [3]string
	vhHdrComments []*ast.CommentGroup
)

// vhHeaderTag: a well-formed tag (go:build syntax rejects malformed words).
func vhHeaderTag() string {
	if vhHdrSimple == 1 {
		return vNondetWordN("t", vhTagWordChars, 1, 8)
	}
	switch vConcretizeInt(vNondetInt("tagkind"), 0, 2) {
	case 1:
		return "go1." + vNondetWord("rel", "0123456789", 2)
	case 2:
		return "go1." + vNondetWord("junk", "abcdefghijklmnopqrstuvwxyz_.", 2)
	}
	t := vNondetWordN("t", vhTagWordChars, 1, 8)
	vAssume(!vHasPrefix(t, "go1."))
	return t
}

// vhShapedExpr: the expression text and, in vhHdrTags, its tags.
func vhShapedExpr() string {
	a, b, c := vhHeaderTag(), "", ""
	if vhExprShape >= 2 {
		b = vhHeaderTag()
	}
	if vhExprShape >= 6 {
		c = vhHeaderTag()
	}
	vhHdrTags = [3]string{a, b, c}
	switch vhExprShape {
	case 0:
		return a
	case 1:
		return "!" + a
	case 2:
		return a + " && " + b
	case 3:
		return a + " || " + b
	case 4:
		return a + " && !" + b
	case 5:
		return "!(" + a + " || " + b + ")"
	case 6:
		return a + " || " + b + " && " + c
	case 7:
		return "(" + a + " || " + b + ") && " + c
	case 8:
		return a + " && " + b + " || !" + c
	}
	return a + "&&(" + b + "||!" + c + ")"
}

// vmExprEval: the truth value of the shape, restated.
func vmExprEval(ctx *build.Context) bool {
	a := vmMatchTag(ctx, vhHdrTags[0])
	b, c := false, false
	if vhExprShape >= 2 {
		b = vmMatchTag(ctx, vhHdrTags[1])
	}
	if vhExprShape >= 6 {
		c = vmMatchTag(ctx, vhHdrTags[2])
	}
	switch vhExprShape {
	case 0:
		return a
	case 1:
		return !a
	case 2:
		return vAnd(a, b)
	case 3:
		return vOr(a, b)
	case 4:
		return vAnd(a, !b)
	case 5:
		return !vOr(a, b)
	case 6:
		return vOr(a, vAnd(b, c))
	case 7:
		return vAnd(vOr(a, b), c)
	case 8:
		return vOr(vAnd(a, b), !c)
	}
	return vAnd(a, vOr(b, !c))
}

func vmHeaderMatch(ctx *build.Context, gobuild string, hasGoBuild bool, lines []string) bool {
	if hasGoBuild {
		return vmExprEval(ctx)
	}
	for _, l := range lines {
		if !vmLineMatch(ctx, l) {
			return false
		}
	}
	return true
}

// vhHeaderSrc is the file text; vhHdrComments the comment list the parser
// yields for it (one group: the lines are adjacent).
func vhHeaderSrc(gobuild string, hasGoBuild bool, lines []string) string {
	src := ""
	vhHdrComments = nil
	if vhDocGroup == 1 {
		src = "// Copyright.\n\n"
		vhHdrComments = append(vhHdrComments, &ast.CommentGroup{List: []*ast.Comment{{Text: "// Copyright."}}})
	}
	g := &ast.CommentGroup{}
	if hasGoBuild {
		src += "//go:build " + gobuild + "\n"
		g.List = append(g.List, &ast.Comment{Text: "//go:build " + gobuild})
	}
	for _, l := range lines {
		src += "// " + l + "\n"
		g.List = append(g.List, &ast.Comment{Text: "// " + l})
	}
	if len(g.List) > 0 {
		vhHdrComments = append(vhHdrComments, g)
	}
	return src + "\npackage x\n"
}

func vmParseFile(fset *token.FileSet, filename string, src any, mode parser.Mode) (*ast.File, error) {
	return &ast.File{Comments: vhHdrComments}, nil
}

// vmCommentText restates (*ast.CommentGroup).Text for //-style comments whose
// lines carry no trailing blanks: directives are dropped, the marker and one
// following space removed, lines joined with "\n".
func vmCommentText(g *ast.CommentGroup) string {
	if g == nil {
		return ""
	}
	r := ""
	for _, c := range g.List {
		t := c.Text
		if strings.HasPrefix(t, "//go:") || strings.HasPrefix(t, "//line ") || strings.HasPrefix(t, "//extern ") || strings.HasPrefix(t, "//export ") {
			continue
		}
		t = t[2:]
		if t != "" && t[0] == ' ' {
			t = t[1:]
		}
		r += t + "\n"
	}
	return r
}

func vh_C17_header() {
	ctx := vhCtx(1)
	gobuild := ""
	if vhHasGoBuild == 1 {
		gobuild = vhShapedExpr()
	}
	var lines []string
	for i := 0; i < vhNPlusLines; i++ {
		lines = append(lines, vhShapedLine())
	}
	src := vhHeaderSrc(gobuild, vhHasGoBuild == 1, lines)
	if vhHdrSimple == 1 && !vSymbolic() {
		// replay of a structure counterexample: realise the predicate's
		// interpretation through the custom build tags
		ctx.BuildTags = nil
		words := strings.FieldsFunc(src+" ignore", func(c rune) bool { return !strings.ContainsRune(vhTagWordChars, c) })
		for _, w := range words {
			if vPred("tagok", w) {
				ctx.BuildTags = append(ctx.BuildTags, w)
			}
		}
	}
	in := &Interpreter{}
	in.fset = token.NewFileSet()
	vReach("C17.header")
	got, err := in.buildOk(ctx, "x.go", src)
	vAssert("C17.header.no-error", err == nil)
	if err == nil {
		want := vhHeaderMatch(ctx, gobuild, vhHasGoBuild == 1, lines)
		vAssert("C17.header", got == want)
	}
}

var vhRegistry = map[string]func(){
	"vh_C17_name":   vh_C17_name,
	"vh_C17_line":   vh_C17_line,
	"vh_C17_header": vh_C17_header,
}

var vhIntVars = map[string]*int{
	"vhNParts": &vhNParts, "vhDotSeg": &vhDotSeg, "vhWordMax": &vhWordMax, "vhNoGo": &vhNoGo,
	"vhLineKind": &vhLineKind, "vhNOpts": &vhNOpts, "vhNTags": &vhNTags, "vhGapAt": &vhGapAt, "vhTagKind": &vhTagKind,
	"vhHasGoBuild": &vhHasGoBuild, "vhExprShape": &vhExprShape, "vhNPlusLines": &vhNPlusLines, "vhDocGroup": &vhDocGroup, "vhHdrSimple": &vhHdrSimple,
}

var vhScenarios = map[string]func(map[string]string) bool{}
