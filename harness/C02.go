package interp

// C02: operators compute Go's results for every integer kind.
//
// Real code executed from SSA: the generators of op.go (add, sub, mul, quo,
// rem, and, or, xor, andNot, shl, shr, their *Assign forms, inc, dec, equal,
// notEqual, lower, lowerEqual, greater, greaterEqual), neg, pos, bitNot of
// run.go, genValue, genValueInt/Uint, valueGenerator, genValueOutput, vInt,
// vUint, vConstantValue, getExec, (*itype).concrete/TypeOf, isInterface... and
// the closures they install, executed on a frame of addressable
// reflect.Values (engine reflect model).
// Oracle: the same operator applied by Go at the operand type (the engine's
// encoding of Go's own integer semantics, validated natively on vectors).

import (
	"go/constant"
	"reflect"
)

var (
	vhKind   = int(reflect.Int8)
	vhOp     = 0
	vhForm   = 0 // 0 var op var, 1 typed constant on the left, 2 typed constant on the right, 3/4 untyped constant left/right
	vhCntInt = 0 // shifts: 1 = the count has type int (may be negative), 0 = uint
	vhBranch = 0 // comparisons: 1 = used as a branch condition (the node has a false successor)
	vhTook   = 0 // which successor the comparison closure returned: 1 true branch, 2 false branch
)

const (
	opAdd = iota
	opSub
	opMul
	opQuo
	opRem
	opAnd
	opOr
	opXor
	opAndNot
	opShl
	opShr
	opEq
	opNe
	opLt
	opLe
	opGt
	opGe
	opNeg
	opPos
	opBitNot
	opInc
	opDec
)

type vhInteger interface {
	~int | ~int8 | ~int16 | ~int32 | ~int64 | ~uint | ~uint8 | ~uint16 | ~uint32 | ~uint64 | ~uintptr
}

// vhGo applies op the way compiled Go does at type T. cnt is the shift count
// as an int (signed, may be negative) or uint.
func vhGo[T vhInteger](op int, x, y T, cntI int, cntU uint, cntSigned bool) (r T, b bool) {
	switch op {
	case opAdd:
		return x + y, false
	case opSub:
		return x - y, false
	case opMul:
		return x * y, false
	case opQuo:
		return x / y, false
	case opRem:
		return x % y, false
	case opAnd:
		return x & y, false
	case opOr:
		return x | y, false
	case opXor:
		return x ^ y, false
	case opAndNot:
		return x &^ y, false
	case opShl:
		if cntSigned {
			return x << cntI, false
		}
		return x << cntU, false
	case opShr:
		if cntSigned {
			return x >> cntI, false
		}
		return x >> cntU, false
	case opEq:
		return 0, x == y
	case opNe:
		return 0, x != y
	case opLt:
		return 0, x < y
	case opLe:
		return 0, x <= y
	case opGt:
		return 0, x > y
	case opGe:
		return 0, x >= y
	case opNeg:
		return -x, false
	case opPos:
		return +x, false
	case opBitNot:
		return ^x, false
	case opInc:
		return x + 1, false
	case opDec:
		return x - 1, false
	}
	return 0, false
}

// vhOracle dispatches on the kind; results are widened to 64 bits.
func vhOracle(k reflect.Kind, op int, a, b int64, cntI int, cntU uint, cntSigned bool) (ri int64, ru uint64, rb bool) {
	switch k {
	case reflect.Int:
		r, c := vhGo(op, int(a), int(b), cntI, cntU, cntSigned)
		return int64(r), 0, c
	case reflect.Int8:
		r, c := vhGo(op, int8(a), int8(b), cntI, cntU, cntSigned)
		return int64(r), 0, c
	case reflect.Int16:
		r, c := vhGo(op, int16(a), int16(b), cntI, cntU, cntSigned)
		return int64(r), 0, c
	case reflect.Int32:
		r, c := vhGo(op, int32(a), int32(b), cntI, cntU, cntSigned)
		return int64(r), 0, c
	case reflect.Int64:
		r, c := vhGo(op, a, b, cntI, cntU, cntSigned)
		return r, 0, c
	case reflect.Uint:
		r, c := vhGo(op, uint(a), uint(b), cntI, cntU, cntSigned)
		return 0, uint64(r), c
	case reflect.Uint8:
		r, c := vhGo(op, uint8(a), uint8(b), cntI, cntU, cntSigned)
		return 0, uint64(r), c
	case reflect.Uint16:
		r, c := vhGo(op, uint16(a), uint16(b), cntI, cntU, cntSigned)
		return 0, uint64(r), c
	case reflect.Uint32:
		r, c := vhGo(op, uint32(a), uint32(b), cntI, cntU, cntSigned)
		return 0, uint64(r), c
	case reflect.Uint64:
		r, c := vhGo(op, uint64(a), uint64(b), cntI, cntU, cntSigned)
		return 0, r, c
	case reflect.Uintptr:
		r, c := vhGo(op, uintptr(a), uintptr(b), cntI, cntU, cntSigned)
		return 0, uint64(r), c
	}
	return 0, 0, false
}

func vhSignedKind(k reflect.Kind) bool { return k >= reflect.Int && k <= reflect.Int64 }

func vhCat(k reflect.Kind) tcat {
	return map[reflect.Kind]tcat{reflect.Bool: boolT, reflect.Int: intT, reflect.Int8: int8T, reflect.Int16: int16T, reflect.Int32: int32T, reflect.Int64: int64T,
		reflect.Uint: uintT, reflect.Uint8: uint8T, reflect.Uint16: uint16T, reflect.Uint32: uint32T, reflect.Uint64: uint64T, reflect.Uintptr: uintptrT}[k]
}

func vhItype(k reflect.Kind) *itype { return &itype{cat: vhCat(k), rtype: vTypeOfKind(int(k))} }

// vhTyped: a reflect.Value of kind k holding (the truncation of) a.
func vhTyped(k reflect.Kind, a int64) reflect.Value {
	switch k {
	case reflect.Int:
		return reflect.ValueOf(int(a))
	case reflect.Int8:
		return reflect.ValueOf(int8(a))
	case reflect.Int16:
		return reflect.ValueOf(int16(a))
	case reflect.Int32:
		return reflect.ValueOf(int32(a))
	case reflect.Int64:
		return reflect.ValueOf(a)
	case reflect.Uint:
		return reflect.ValueOf(uint(a))
	case reflect.Uint8:
		return reflect.ValueOf(uint8(a))
	case reflect.Uint16:
		return reflect.ValueOf(uint16(a))
	case reflect.Uint32:
		return reflect.ValueOf(uint32(a))
	case reflect.Uint64:
		return reflect.ValueOf(uint64(a))
	case reflect.Uintptr:
		return reflect.ValueOf(uintptr(a))
	}
	return reflect.Value{}
}

// vhCell: an addressable frame slot of kind k holding (the truncation of) a.
func vhCell(k reflect.Kind, a int64) reflect.Value {
	v := reflect.New(vTypeOfKind(int(k))).Elem()
	if vhSignedKind(k) {
		v.SetInt(a)
	} else {
		v.SetUint(uint64(a))
	}
	return v
}

// vhTrunc: the operand actually held by a slot of kind k after storing a.
func vhTrunc(k reflect.Kind, a int64) int64 {
	c := vhCell(k, a)
	if vhSignedKind(k) {
		return c.Int()
	}
	return int64(c.Uint())
}

var vhGens = map[int]func(*node){
	opAdd: add, opSub: sub, opMul: mul, opQuo: quo, opRem: rem, opAnd: and, opOr: or, opXor: xor, opAndNot: andNot, opShl: shl, opShr: shr,
	opEq: equal, opNe: notEqual, opLt: lower, opLe: lowerEqual, opGt: greater, opGe: greaterEqual,
	opNeg: neg, opPos: pos, opBitNot: bitNot, opInc: inc, opDec: dec,
	100 + opAdd: addAssign, 100 + opSub: subAssign, 100 + opMul: mulAssign, 100 + opQuo: quoAssign, 100 + opRem: remAssign,
	100 + opAnd: andAssign, 100 + opOr: orAssign, 100 + opXor: xorAssign, 100 + opAndNot: andNotAssign, 100 + opShl: shlAssign, 100 + opShr: shrAssign,
}

// vh_C02_int: one operator (vhOp; +100 = its compound-assignment form), one
// integer kind (vhKind), one operand form (vhForm); operand values symbolic.
func vh_C02_int() {
	k := reflect.Kind(vhKind)
	op := vhOp % 100
	assign := vhOp >= 100
	isCmp := op >= opEq && op <= opGe
	isShift := op == opShl || op == opShr
	unary := op >= opNeg
	a0, b0 := vNondetInt64("a"), vNondetInt64("b")
	a, b := vhTrunc(k, a0), vhTrunc(k, b0)
	i := vhNewInterp()
	t := vhItype(k)
	resT := t
	if isCmp {
		resT = vhItype(reflect.Bool)
	}
	// operand 1 of a shift is the count: uint, or int (possibly negative)
	ck := k
	var cntI int
	var cntU uint
	if isShift {
		ck = reflect.Uint
		if vhCntInt == 1 {
			ck = reflect.Int
		}
		b = vhTrunc(ck, b0)
		cntI, cntU = int(b), uint(b)
	}
	parent := &node{interp: i, kind: exprStmt}
	c0 := &node{interp: i, typ: t, findex: 0, kind: identExpr}
	c1 := &node{interp: i, typ: vhItype(ck), findex: 1, kind: identExpr}
	n := &node{interp: i, anc: parent, typ: resT, findex: 2, kind: binaryExpr, child: []*node{c0, c1}}
	c0.anc, c1.anc = n, n
	if unary {
		n.child = []*node{c0}
		n.kind = unaryExpr
	}
	if assign || op == opInc || op == opDec {
		n.typ = t
		n.kind = assignStmt
	}
	if isCmp && vhBranch == 1 {
		n.tnext = &node{interp: i, exec: func(*frame) bltn { vhTook = 1; return nil }}
		n.fnext = &node{interp: i, exec: func(*frame) bltn { vhTook = 2; return nil }}
	}
	vhTook = 0
	f := newFrame(i.frame, 3, i.runid())
	f.data[0] = vhCell(k, a)
	f.data[1] = vhCell(ck, b)
	f.data[2] = reflect.New(resT.rtype).Elem()
	switch vhForm {
	case 1:
		c0.rval = vhTyped(k, a)
	case 2:
		c1.rval = vhTyped(ck, b)
	case 3:
		c0.rval = reflect.ValueOf(constant.MakeInt64(a))
		if !vhSignedKind(k) {
			c0.rval = reflect.ValueOf(constant.MakeUint64(uint64(a)))
		}
	case 4:
		c1.rval = reflect.ValueOf(constant.MakeInt64(b))
		if !vhSignedKind(ck) {
			c1.rval = reflect.ValueOf(constant.MakeUint64(uint64(b)))
		}
	}
	gen := vhGens[vhOp]
	vReach("C02.int")
	// generation: a closure must be installed for every kind of the operator's domain
	genPanicked := false
	func() {
		defer func() {
			if recover() != nil {
				genPanicked = true
			}
		}()
		gen(n)
	}()
	vKnown("C02.incdec-uintptr-missing", (op == opInc || op == opDec) && k == reflect.Uintptr)
	vAssert("C02.total", !genPanicked && n.exec != nil)
	if genPanicked || n.exec == nil {
		return
	}
	// execution
	panicked := false
	func() {
		defer func() {
			if recover() != nil {
				panicked = true
			}
		}()
		if next := n.exec(f); next != nil {
			next(f)
		}
	}()
	// what compiled Go does
	goPanics := false
	var wi int64
	var wu uint64
	var wb bool
	func() {
		defer func() {
			if recover() != nil {
				goPanics = true
			}
		}()
		wi, wu, wb = vhOracle(k, op, a, b, cntI, cntU, ck == reflect.Int)
	}()
	vKnown("C02.negative-shift-count-no-panic", isShift && ck == reflect.Int && b < 0)
	vAssert("C02.panics-iff-go-panics", panicked == goPanics)
	if panicked || goPanics {
		return
	}
	res := f.data[2]
	if assign || op == opInc || op == opDec {
		res = f.data[0]
	}
	switch {
	case isCmp:
		vAssert("C02.value", res.Bool() == wb)
		if vhBranch == 1 {
			// as a branch condition: the true successor iff the comparison holds
			vAssert("C02.branch", (vhTook == 1) == wb && vhTook != 0)
		}
	case vhSignedKind(k):
		vAssert("C02.value", res.Int() == wi)
	default:
		vAssert("C02.value", res.Uint() == wu)
	}
}

var vhRegistry = map[string]func(){"vh_C02_int": vh_C02_int, "vh_C02_float": vh_C02_float, "vh_C02_string": vh_C02_string, "vv_models": vv_models, "vv_arith": vv_arith}

var vhIntVars = map[string]*int{"vhKind": &vhKind, "vhOp": &vhOp, "vhForm": &vhForm, "vhCntInt": &vhCntInt, "vhBranch": &vhBranch}

var vhScenarios = map[string]func(map[string]string) bool{}

// vv_arith: Go's own integer semantics on vectors, natively and through the
// engine's encoding (both integer encodings are validated).
func vv_arith() {
	for _, k := range vvIntKinds {
		for _, x := range vvInts {
			for _, y := range []int64{1, -1, 3, -128, 255, math64Min, 63, 65} {
				for op := opAdd; op <= opDec; op++ {
					if (op == opQuo || op == opRem) && vhTrunc(k, y) == 0 {
						continue
					}
					ri, ru, rb := vhOracle(k, op, vhTrunc(k, x), vhTrunc(k, y), int(y&127), uint(y&127), false)
					vObserveInt("i", ri)
					vObserveUint("u", ru)
					vObserveBool("b", rb)
				}
			}
		}
	}
}

const (
	math64Max = int64(1<<63 - 1)
	math64Min = -int64(1<<63-1) - 1
)
