package interp

// C09 (cancellation stops interpreted activity) and C10 (a cancelled
// evaluation does not damage earlier definitions): run-id protocol.
//
// Real code executed from SSA: runCfg, (*Interpreter).run, Execute, stop's
// effect on the id, runid, newFrame, (*frame).runid/setrunid/clone, getFunc
// (exec closure and its MakeFunc body), genFunctionWrapper (closure and its
// MakeFunc body), getFrame, getExec.
// Nothing is stubbed: genRun, resizeFrame, genGlobalVars, genValue and
// itype.TypeOf run for real on the small node structures built here. The two
// run-id accessors are instrumented (overlay) to call vhTick first.

import "reflect"

// ---- C09.gate: one activation, cancel at any later instant -------------

func vh_C09_gate() {
	vhResetClock()
	vhStopAt = -1
	i := vhNewInterp()
	n := vhNode(i, 0)
	f := newFrame(i.frame, 0, i.runid())
	t0 := vhClock
	vhStopAt = vNondetInt("tstop")
	vAssume(vhStopAt >= t0 || vhStopAt == -1)
	vAssume(vhStopAt <= 60)
	vReach("C09.gate")
	runCfg(n, f, n, nil)
	// at most the operation in flight completes after the cancel
	vAssert("C09.gate", vhAfterStop <= 1)
	// and without a cancel nothing is cut short: the loop ends only on nil
	vAssert("C09.gate.runs-when-live", vhStopped || vhSteps >= 1)
}

// ---- C09.sequence: Execute = globals, inits, main ------------------------

func vh_C09_execute() {
	vhResetClock()
	vhStopAt = -1
	i := vhNewInterp()
	root := vhNode(i, 0)
	init1 := vhNode(i, 10)
	mainN := vhNode(i, 20)
	p := &Program{pkgName: "main", root: root, init: []*node{init1, mainN}}
	t0 := vhClock
	vhStopAt = vNondetInt("tstop")
	vAssume(vhStopAt >= t0 || vhStopAt == -1)
	vAssume(vhStopAt <= 80)
	vReach("C09.sequence.execute")
	_, err := i.Execute(p)
	_ = err
	// the cancel came before Execute stamped the root frame with the current id
	// (already expired context, or cancel during compilation)
	vKnown("C09.cancel-before-execute-stamp", vhStopAt == t0)
	// run() stamps the frame of every init function and of main with the
	// *current* interpreter id, so they start even though the evaluation was cancelled
	vKnown("C09.fresh-id-per-activation", vhNewActAfterStop)
	vAssert("C09.sequence.execute", vhAfterStop <= 1)
}

// ---- C10: definitions survive a cancelled evaluation --------------------

// vhCancelledEval models a complete EvalWithContext that was cancelled:
// Execute stamps the root frame, the program runs, stop() bumps the id.
func vhCancelledEval(i *Interpreter) {
	i.frame.setrunid(i.runid())
	i.id++ // stop()
}

// vhLaterEval models the start of a later, successful Eval (Execute stamps
// the root frame with the current id).
func vhLaterEval(i *Interpreter) {
	i.frame.setrunid(i.runid())
}

func vhFuncNode(i *Interpreter, base int) *node {
	body := vhNode(i, base)
	blk := &node{interp: i, start: body}
	def := &node{interp: i, kind: funcDecl, typ: &itype{cat: funcT, rtype: reflect.TypeOf(func() {})}}
	def.child = []*node{{interp: i}, {interp: i, ident: "f"}, {interp: i}, blk}
	def.val = def
	return def
}

// closure stored in a variable: getFunc's exec closure runs at definition
// time (clones the frame), the MakeFunc body runs at every later use.
func vh_C10_closure() {
	vhResetClock()
	vhStopAt = -1
	i := vhNewInterp()
	vhLaterEval(i) // the defining evaluation
	def := vhFuncNode(i, 0)
	def.findex, def.level = 0, 0
	getFunc(def)
	def.exec(i.frame) // executes "f := func() {...}" in the defining Eval
	fct := i.frame.data[0]
	ncancel := vConcretizeInt(vNondetInt("ncancel"), 0, 2)
	for k := 0; k < ncancel; k++ {
		vhCancelledEval(i)
	}
	fromHost := vNondetBool("fromHost")
	if !fromHost {
		vhLaterEval(i)
	}
	vReach("C10.use.closure")
	vCallMade(fct, nil)
	vKnown("C10.closure-dead-after-cancel", ncancel > 0)
	vAssert("C10.use.closure", vhSteps >= 1)
}

// exported wrapper held by the host (what Eval returns for a function value).
func vh_C10_wrapper() {
	vhResetClock()
	vhStopAt = -1
	i := vhNewInterp()
	vhLaterEval(i)
	def := vhFuncNode(i, 0)
	use := &node{interp: i, val: def, typ: def.typ}
	w := genFunctionWrapper(use)(i.frame)
	ncancel := vConcretizeInt(vNondetInt("ncancel"), 0, 2)
	for k := 0; k < ncancel; k++ {
		vhCancelledEval(i)
	}
	fromHost := vNondetBool("fromHost")
	if !fromHost {
		vhLaterEval(i)
	}
	vReach("C10.use.wrapper")
	vCallMade(w, nil)
	vKnown("C10.wrapper-dead-until-next-eval", vAnd(ncancel > 0, fromHost))
	vAssert("C10.use.wrapper", vhSteps >= 1)
}

// named function called from a later Eval: the call site creates the frame
// from the (re-stamped) root frame; modelled by run() on the root frame.
func vh_C10_named() {
	vhResetClock()
	vhStopAt = -1
	i := vhNewInterp()
	vhLaterEval(i)
	n := vhNode(i, 0)
	ncancel := vConcretizeInt(vNondetInt("ncancel"), 0, 2)
	for k := 0; k < ncancel; k++ {
		vhCancelledEval(i)
	}
	vhLaterEval(i)
	vReach("C10.use.named")
	i.run(n, i.frame)
	vAssert("C10.use.named", vhSteps >= 1)
}

var vhRegistry = map[string]func(){
	"vh_C09_gate": vh_C09_gate, "vh_C09_execute": vh_C09_execute,
	"vh_C10_closure": vh_C10_closure, "vh_C10_wrapper": vh_C10_wrapper, "vh_C10_named": vh_C10_named,
}

var vhIntVars = map[string]*int{"vhMaxSteps": &vhMaxSteps, "vhNExec": &vhNExec}

var vhScenarios = map[string]func(map[string]string) bool{}
