package interp

// C09 (cancellation stops interpreted activity) and C10 (a cancelled
// evaluation does not damage earlier definitions): run-id protocol.
//
// Real code executed from SSA: runCfg, (*Interpreter).run, Execute, stop's
// effect on the id, runid, newFrame, (*frame).runid/setrunid/clone, getFunc
// (exec closure and its MakeFunc body), genFunctionWrapper (closure and its
// MakeFunc body), getFrame, getExec.
// Nothing is stubbed: genRun, resizeFrame, genGlobalVars, genValue and
// itype.TypeOf run for real on the small node structures built here. The two
// run-id accessors are instrumented (overlay) to call vhTick first.

import "reflect"

// ---- C09.gate: one activation, cancel at any later instant -------------

func vh_C09_gate() {
	vhResetClock()
	vhStopAt = -1
	i := vhNewInterp()
	n := vhNode(i, 0)
	f := newFrame(i.frame, 0, i.runid())
	t0 := vhClock
	vhStopAt = vNondetInt("tstop")
	vAssume(vhStopAt >= t0 || vhStopAt == -1)
	vAssume(vhStopAt <= 60)
	vReach("C09.gate")
	runCfg(n, f, n, nil)
	// at most the operation in flight completes after the cancel
	vAssert("C09.gate", vhAfterStop <= 1)
	// and without a cancel nothing is cut short: the loop ends only on nil
	vAssert("C09.gate.runs-when-live", vhStopped || vhSteps >= 1)
}

// ---- C09.sequence: Execute = globals, inits, main ------------------------

func vh_C09_execute() {
	vhResetClock()
	vhStopAt = -1
	i := vhNewInterp()
	root := vhNode(i, 0)
	init1 := vhNode(i, 10)
	mainN := vhNode(i, 20)
	p := &Program{pkgName: "main", root: root, init: []*node{init1, mainN}}
	t0 := vhClock
	vhStopAt = vNondetInt("tstop")
	vAssume(vhStopAt >= t0 || vhStopAt == -1)
	vAssume(vhStopAt <= 80)
	vReach("C09.sequence.execute")
	_, err := i.Execute(p)
	_ = err
	// the cancel came before Execute stamped the root frame with the current id
	// (already expired context, or cancel during compilation)
	// the activation that was running when the cancel arrived completes at most
	// the operation in flight (no known exception)
	vAssert("C09.sequence.running-activation-stops", vhAfterStopSame <= 1)
	vKnown("C09.cancel-before-execute-stamp", vhStopAt == t0)
	// run() stamps the frame of every init function and of main with the
	// *current* interpreter id, so they start even though the evaluation was cancelled
	vKnown("C09.fresh-id-per-activation", vhNewActAfterStop)
	vAssert("C09.sequence.execute", vhAfterStop <= 1)
}

// ---- C10: definitions survive a cancelled evaluation --------------------

// vhCancelledEval: a complete evaluation that gets cancelled: the real
// Execute runs a program whose only step is hit by the real stop().
func vhCancelledEval(i *Interpreter) {
	i.done = make(chan struct{}) // as EvalWithContext does
	root := &node{interp: i}
	root.start = root
	root.exec = func(f *frame) bltn {
		i.stop()
		return nil
	}
	i.Execute(&Program{pkgName: "main", root: root})
}

// vhLaterEval: a later, successful evaluation (the real Execute) whose program
// is the single step given.
func vhLaterEval(i *Interpreter, step func(f *frame)) {
	root := &node{interp: i}
	root.start = root
	root.exec = func(f *frame) bltn {
		if step != nil {
			step(f)
		}
		return nil
	}
	i.Execute(&Program{pkgName: "main", root: root})
}

// vhCallNode builds "f()" for an interpreted function node def (no arguments,
// no results) and generates its exec closure with the real call generator.
func vhCallNode(i *Interpreter, def *node) *node {
	c0 := &node{interp: i, kind: identExpr, findex: notInFrame, val: def, typ: def.typ}
	stmt := &node{interp: i, kind: exprStmt}
	n := &node{interp: i, kind: callExpr, anc: stmt, child: []*node{c0}, typ: def.typ}
	c0.anc = n
	call(n)
	return n
}

func vhFuncNode(i *Interpreter, base int) *node {
	body := vhNode(i, base)
	blk := &node{interp: i, start: body}
	def := &node{interp: i, kind: funcDecl, typ: &itype{cat: funcT, rtype: reflect.TypeOf(func() {})}}
	def.child = []*node{{interp: i}, {interp: i, ident: "f"}, {interp: i}, blk}
	def.val = def
	return def
}

// closure stored in a variable: getFunc's exec closure runs at definition
// time (clones the frame), the MakeFunc body runs at every later use.
func vh_C10_closure() {
	vhResetClock()
	vhStopAt = -1
	i := vhNewInterp()
	def := vhFuncNode(i, 0)
	def.findex, def.level = 0, 0
	getFunc(def)
	// the defining evaluation executes "f := func() {...}"
	vhLaterEval(i, func(f *frame) { def.exec(f) })
	fct := i.frame.data[0]
	ncancel := vConcretizeInt(vNondetInt("ncancel"), 0, 2)
	for k := 0; k < ncancel; k++ {
		vhCancelledEval(i)
	}
	fromHost := vNondetBool("fromHost")
	vReach("C10.use.closure")
	if fromHost {
		vCallMade(fct, nil)
	} else {
		vhLaterEval(i, func(*frame) { vCallMade(fct, nil) })
	}
	vKnown("C10.closure-dead-after-cancel", ncancel > 0)
	vAssert("C10.use.closure", vhSteps >= 1)
}

// exported wrapper held by the host (what Eval returns for a function value).
func vh_C10_wrapper() {
	vhResetClock()
	vhStopAt = -1
	i := vhNewInterp()
	def := vhFuncNode(i, 0)
	use := &node{interp: i, val: def, typ: def.typ}
	var w reflect.Value
	vhLaterEval(i, func(f *frame) { w = genFunctionWrapper(use)(f) })
	ncancel := vConcretizeInt(vNondetInt("ncancel"), 0, 2)
	for k := 0; k < ncancel; k++ {
		vhCancelledEval(i)
	}
	fromHost := vNondetBool("fromHost")
	vReach("C10.use.wrapper")
	if fromHost {
		vCallMade(w, nil)
	} else {
		vhLaterEval(i, func(*frame) { vCallMade(w, nil) })
	}
	vKnown("C10.wrapper-dead-until-next-eval", vAnd(ncancel > 0, fromHost))
	vAssert("C10.use.wrapper", vhSteps >= 1)
}

// named function: the call site "f()" was compiled (real call generator)
// either by the defining evaluation, inside another function g, or by the later
// evaluation itself; the later evaluation (real Execute) executes it.
func vh_C10_named() {
	vhResetClock()
	vhStopAt = -1
	i := vhNewInterp()
	def := vhFuncNode(i, 0)
	early := vNondetBool("callSiteCompiledBeforeCancel")
	var site *node
	if early {
		site = vhCallNode(i, def)
	}
	vhLaterEval(i, nil) // the defining evaluation
	ncancel := vConcretizeInt(vNondetInt("ncancel"), 0, 2)
	for k := 0; k < ncancel; k++ {
		vhCancelledEval(i)
	}
	if !early {
		site = vhCallNode(i, def)
	}
	vReach("C10.use.named")
	vhLaterEval(i, func(f *frame) {
		// the statement runs inside a function frame of the later evaluation
		g := newFrame(f, 0, f.runid())
		site.exec(g)
	})
	vAssert("C10.use.named", vhSteps >= 1)
}

// ---- C09: a function value wrapped during an evaluation and called after that
// evaluation was cancelled (e.g. a deferred interpreted function run while the
// cancelled goroutine unwinds) must not start.
func vh_C09_wrapper() {
	vhResetClock()
	vhStopAt = -1
	i := vhNewInterp()
	def := vhFuncNode(i, 0)
	use := &node{interp: i, val: def, typ: def.typ}
	viaCall := vNondetBool("viaCallSite")
	var site *node
	if viaCall {
		site = vhCallNode(i, def)
	}
	vReach("C09.inherit")
	i.done = make(chan struct{})
	vhLaterEval(i, func(f *frame) {
		g := newFrame(f, 0, f.runid()) // a function frame of this evaluation
		w := genFunctionWrapper(use)(g)
		i.stop() // the evaluation is cancelled here
		before := vhSteps
		if viaCall {
			site.exec(g)
		} else {
			vCallMade(w, nil)
		}
		vAssert("C09.inherit.no-start-after-cancel", vhSteps == before)
	})
}

// Every evaluation runs with ITS done channel: the root frame takes the
// interpreter's current done channel at each run, and frames created from it
// inherit it (a stale channel from an earlier evaluation would never fire).
func vh_C09_done() {
	vhResetClock()
	vhStopAt = -1
	i := vhNewInterp()
	nEarlier := vConcretizeInt(vNondetInt("earlierEvals"), 0, 2)
	for k := 0; k < nEarlier; k++ {
		i.done = make(chan struct{})
		vhLaterEval(i, nil)
	}
	i.done = make(chan struct{}) // what EvalWithContext does for the evaluation under test
	cur := reflect.ValueOf(i.done)
	vReach("C09.done")
	vhLaterEval(i, func(f *frame) {
		vAssert("C09.done-propagates", f.done.Chan == cur && f.done.Dir == reflect.SelectRecv)
		child := newFrame(f, 0, f.runid())
		vAssert("C09.done-propagates", child.done.Chan == cur)
		cl := f.clone()
		vAssert("C09.done-propagates", cl.done.Chan == cur)
	})
	// and through (*Interpreter).run for init functions / main
	in := vhNode(i, 0)
	in.exec = func(f *frame) bltn {
		vAssert("C09.done-propagates", f.done.Chan == cur)
		return nil
	}
	root := &node{interp: i}
	root.start = root
	root.exec = func(*frame) bltn { return nil }
	i.Execute(&Program{pkgName: "main", root: root, init: []*node{in}})
}

var vhRegistry = map[string]func(){
	"vh_C09_done": vh_C09_done,
	"vh_C09_gate": vh_C09_gate, "vh_C09_execute": vh_C09_execute,
	"vh_C09_wrapper": vh_C09_wrapper, "vh_C09_block": vh_C09_block, "vh_C10_closure": vh_C10_closure, "vh_C10_wrapper": vh_C10_wrapper, "vh_C10_named": vh_C10_named,
}

var vhIntVars = map[string]*int{"vhMaxSteps": &vhMaxSteps, "vhNExec": &vhNExec, "vhBlockOp": &vhBlockOp}

var vhScenarios = map[string]func(map[string]string) bool{}
