package interp

// C12, type rules on basic types: the real typecheck.binaryExpr (with shift,
// comparison, op and the predicate tables), typecheck.unaryExpr and
// typecheck.assignment are executed on operand nodes whose types are any of
// the 17 predeclared basic types of the real universe scope (typed variables,
// no constants). Reference: go/types on "var a T0; var b T1; var _ = a OP b"
// natively; restated as a table for the solver (vmGoAccepts*), and the
// restatement is compared with go/types on the whole space natively
// (TestVerifValidateC12).

import (
	"errors"
	"go/ast"
	"go/constant"
	"go/parser"
	"go/token"
	"go/types"
	"reflect"
)

var vhBasicNames = []string{"bool", "int", "int8", "int16", "int32", "int64", "uint", "uint8", "uint16", "uint32", "uint64", "uintptr", "float32", "float64", "complex64", "complex128", "string"}

var vhBinActs = []action{aAdd, aSub, aMul, aQuo, aRem, aAnd, aOr, aXor, aAndNot, aShl, aShr, aEqual, aNotEqual, aLower, aLowerEqual, aGreater, aGreaterEqual, aLand, aLor}
var vhBinText = []string{"+", "-", "*", "/", "%", "&", "|", "^", "&^", "<<", ">>", "==", "!=", "<", "<=", ">", ">=", "&&", "||"}

var vhUnActs = []action{aPos, aNeg, aBitNot, aNot}
var vhUnText = []string{"+", "-", "^", "!"}

var vhRuleOp = 0

func vmRuleErrorf(n *node, format string, a ...interface{}) *cfgError {
	return &cfgError{n, errors.New("type error")}
}

// ---- reference, native: go/types -------------------------------------------

func vhGoTypesAccepts(src string) bool {
	fset := token.NewFileSet()
	f, err := parser.ParseFile(fset, "p.go", src, 0)
	if err != nil {
		return false
	}
	conf := types.Config{Error: func(error) {}}
	_, err = conf.Check("p", fset, []*ast.File{f}, nil)
	return err == nil
}

func vhGoAcceptsBinary(op, i0, i1 int) bool {
	return vhGoTypesAccepts("package p\nvar a " + vhBasicNames[i0] + "\nvar b " + vhBasicNames[i1] + "\nvar _ = a " + vhBinText[op] + " b\n")
}

func vhGoAcceptsUnary(op, i0 int) bool {
	return vhGoTypesAccepts("package p\nvar a " + vhBasicNames[i0] + "\nvar _ = " + vhUnText[op] + "a\n")
}

// destination index 17 is interface{}
func vhGoAcceptsAssign(dst, src int) bool {
	d := "interface{}"
	if dst < len(vhBasicNames) {
		d = vhBasicNames[dst]
	}
	return vhGoTypesAccepts("package p\nvar a " + vhBasicNames[src] + "\nvar b " + d + " = a\nvar _ = b\n")
}

// ---- reference, restated for the solver --------------------------------------

// class: 0 bool, 1 integer, 2 float, 3 complex, 4 string
func vmClass(i int) int {
	switch {
	case i == 0:
		return 0
	case i <= 11:
		return 1
	case i <= 13:
		return 2
	case i <= 15:
		return 3
	}
	return 4
}

func vmGoAcceptsBinary(op, i0, i1 int) bool {
	c0, c1 := vmClass(i0), vmClass(i1)
	if op == 9 || op == 10 { // shifts: integer operand, integer count of any integer type
		return c0 == 1 && c1 == 1
	}
	if i0 != i1 {
		return false
	}
	switch {
	case op == 0: // +
		return c0 != 0
	case op <= 3: // - * /
		return c0 == 1 || c0 == 2 || c0 == 3
	case op <= 8: // % & | ^ &^
		return c0 == 1
	case op <= 12: // == !=
		return true
	case op <= 16: // < <= > >=
		return c0 == 1 || c0 == 2 || c0 == 4
	}
	return c0 == 0 // && ||
}

func vmGoAcceptsUnary(op, i0 int) bool {
	c := vmClass(i0)
	switch op {
	case 0, 1:
		return c == 1 || c == 2 || c == 3
	case 2:
		return c == 1
	}
	return c == 0
}

func vmGoAcceptsAssign(dst, src int) bool { return dst == 17 || dst == src }

// ---- harnesses -------------------------------------------------------------------

func vhTypedVar(in *Interpreter, sc *scope, name string, i int) *node {
	return &node{interp: in, kind: identExpr, ident: name, typ: sc.getType(vhBasicNames[i])}
}

func vh_C12_binary() {
	sc := initUniverse()
	in := vhNewInterp()
	i0 := vConcretizeInt(vNondetInt("t0"), 0, 16)
	i1 := vConcretizeInt(vNondetInt("t1"), 0, 16)
	c0, c1 := vhTypedVar(in, sc, "a", i0), vhTypedVar(in, sc, "b", i1)
	n := &node{interp: in, kind: binaryExpr, action: vhBinActs[vhRuleOp]}
	vhAdoptKids(n, c0, c1)
	vReach("C12.rule.binary")
	err := typecheck{scope: sc}.binaryExpr(n)
	want := vhGoAcceptsBinary(vhRuleOp, i0, i1)
	vAssert("C12.rule.binary.rejects-ill-typed", want || err != nil)
	vAssert("C12.rule.binary.accepts-well-typed", !want || err == nil)
}

func vh_C12_unary() {
	sc := initUniverse()
	in := vhNewInterp()
	i0 := vConcretizeInt(vNondetInt("t0"), 0, 16)
	c0 := vhTypedVar(in, sc, "a", i0)
	n := &node{interp: in, kind: unaryExpr, action: vhUnActs[vhRuleOp]}
	vhAdoptKids(n, c0)
	vReach("C12.rule.unary")
	err := typecheck{scope: sc}.unaryExpr(n)
	want := vhGoAcceptsUnary(vhRuleOp, i0)
	vAssert("C12.rule.unary.rejects-ill-typed", want || err != nil)
	vAssert("C12.rule.unary.accepts-well-typed", !want || err == nil)
}

func vh_C12_assign() {
	sc := initUniverse()
	in := vhNewInterp()
	src := vConcretizeInt(vNondetInt("src"), 0, 16)
	dst := vConcretizeInt(vNondetInt("dst"), 0, 17)
	c0 := vhTypedVar(in, sc, "a", src)
	dt := sc.getType("interface{}")
	if dst < 17 {
		dt = sc.getType(vhBasicNames[dst])
	}
	vReach("C12.rule.assign")
	err := typecheck{scope: sc}.assignment(c0, dt, "assignment")
	want := vhGoAcceptsAssign(dst, src)
	vAssert("C12.rule.assign.rejects-ill-typed", want || err != nil)
	vAssert("C12.rule.assign.accepts-well-typed", !want || err == nil)
}

func vhAdoptKids(parent *node, kids ...*node) {
	parent.child = kids
	for _, k := range kids {
		k.anc = parent
	}
}

// ---- one operand is an untyped constant -----------------------------------------
//
// a OP c and c OP a with a typed variable a of any basic type and an untyped
// constant c: an integer of ANY value up to 2^70 in magnitude (symbolic), true,
// or a string. go/types is the reference natively (the literal is printed into
// the source); the restated rule for the solver is vmGoAcceptsConst. Untyped
// floating-point constants are outside (go/constant floats are opaque to the engine).

var (
	vhConstBits = 70 // |v| <= 2^vhConstBits for integer constants (thorough: 200)
	vhConstKind = 0 // 0 integer, 1 boolean, 2 string
	vhConstLeft = 0 // 1: the constant is the left operand
)

func vhConstText(v vBig) string {
	switch vhConstKind {
	case 1:
		return "true"
	case 2:
		return "\"s\""
	}
	return v.v().String()
}

func vhGoAcceptsConst(op, i0 int, v vBig) bool {
	a, c := "a", vhConstText(v)
	expr := a + " " + vhBinText[op] + " " + c
	if vhConstLeft == 1 {
		expr = c + " " + vhBinText[op] + " " + a
	}
	return vhGoTypesAccepts("package p\nvar a " + vhBasicNames[i0] + "\nvar _ = " + expr + "\n")
}

func vmGoAcceptsConst(op, i0 int, v vBig) bool {
	c0 := vmClass(i0)
	k := reflect.Kind(i0 + 1) // reflect.Bool == 1 ... reflect.Uintptr == 12 for the first 12 names
	if op == 9 || op == 10 {
		// a << c: integer operand, non-negative integer count that fits uint
		return vhConstKind == 0 && c0 == 1 && vBigLe(vBigInt64(0), v) && vBigLt(v, vBigPow2(64))
	}
	if op >= 17 {
		return c0 == 0 && vhConstKind == 1
	}
	// the constant converts to the variable's type
	switch vhConstKind {
	case 1:
		if c0 != 0 {
			return false
		}
	case 2:
		if c0 != 4 {
			return false
		}
	default:
		switch c0 {
		case 0, 4:
			return false
		case 1:
			if !(vBigLe(vKindMin(k), v) && vBigLe(v, vKindMax(k))) {
				return false
			}
		}
	}
	switch {
	case op == 0:
		return c0 != 0
	case op <= 3:
		if op == 3 && vhConstLeft == 0 && c0 == 1 && vBigEq(v, vBigInt64(0)) {
			return false // integer division by the constant zero
		}
		return c0 == 1 || c0 == 2 || c0 == 3
	case op <= 8:
		if op == 4 && vhConstLeft == 0 && c0 == 1 && vBigEq(v, vBigInt64(0)) {
			return false
		}
		return c0 == 1
	case op <= 12:
		return true
	}
	return c0 == 1 || c0 == 2 || c0 == 4
}

func vhConstNodeOf(in *Interpreter, v vBig) *node {
	n := &node{interp: in, kind: basicLit}
	switch vhConstKind {
	case 1:
		n.typ, n.rval = untypedBool(n), reflect.ValueOf(true)
	case 2:
		n.typ, n.rval = untypedString(n), reflect.ValueOf(constant.MakeString("s"))
	default:
		n.typ, n.rval = untypedInt(n), reflect.ValueOf(vConstOfBig(v))
	}
	return n
}

func vh_C12_binconst() {
	sc := initUniverse()
	in := vhNewInterp()
	i0 := vConcretizeInt(vNondetInt("t0"), 0, 16)
	v := vBigInt64(0)
	if vhConstKind == 0 {
		// integer constant: the variable is a boolean, an integer of any kind or a string
		// (go/constant floats and complex values are opaque to the engine)
		vAssume(i0 <= 11 || i0 == 16)
		v = vBigNondet("v")
		lim := vBigPow2(vhConstBits)
		vAssume(vBigLe(vBigNeg(lim), v) && vBigLe(v, lim))
	}
	a, c := vhTypedVar(in, sc, "a", i0), vhConstNodeOf(in, v)
	n := &node{interp: in, kind: binaryExpr, action: vhBinActs[vhRuleOp]}
	if vhConstLeft == 1 {
		vhAdoptKids(n, c, a)
	} else {
		vhAdoptKids(n, a, c)
	}
	vReach("C12.rule.const")
	var err error
	if vhRuleOp >= 17 {
		err = typecheck{scope: sc}.logicalExpr(n)
	} else {
		err = typecheck{scope: sc}.binaryExpr(n)
	}
	want := vhGoAcceptsConst(vhRuleOp, i0, v)
	vAssert("C12.rule.const.rejects-ill-typed", want || err != nil)
	vAssert("C12.rule.const.accepts-well-typed", !want || err == nil)
}

// var b T = c with an untyped constant c (integer of any value, true, a string)
// and T a boolean, integer or string type, or interface{} (index 17).
func vhGoAcceptsAssignConst(dst int, v vBig) bool {
	d := "interface{}"
	if dst < len(vhBasicNames) {
		d = vhBasicNames[dst]
	}
	return vhGoTypesAccepts("package p\nvar b " + d + " = " + vhConstText(v) + "\nvar _ = b\n")
}

func vmGoAcceptsAssignConst(dst int, v vBig) bool {
	if dst == 17 {
		// the constant takes its default type: an integer constant must fit int
		return vhConstKind != 0 || (vBigLe(vKindMin(reflect.Int), v) && vBigLe(v, vKindMax(reflect.Int)))
	}
	c := vmClass(dst)
	switch vhConstKind {
	case 1:
		return c == 0
	case 2:
		return c == 4
	}
	if c != 1 {
		return c == 2 || c == 3
	}
	k := reflect.Kind(dst + 1)
	return vBigLe(vKindMin(k), v) && vBigLe(v, vKindMax(k))
}

func vh_C12_assignconst() {
	sc := initUniverse()
	in := vhNewInterp()
	dst := vConcretizeInt(vNondetInt("dst"), 0, 17)
	v := vBigInt64(0)
	if vhConstKind == 0 {
		vAssume(dst <= 11 || dst >= 16)
		v = vBigNondet("v")
		lim := vBigPow2(vhConstBits)
		vAssume(vBigLe(vBigNeg(lim), v) && vBigLe(v, lim))
	}
	c := vhConstNodeOf(in, v)
	dt := sc.getType("interface{}")
	if dst < 17 {
		dt = sc.getType(vhBasicNames[dst])
	}
	vReach("C12.rule.assignconst")
	err := typecheck{scope: sc}.assignment(c, dt, "assignment")
	want := vhGoAcceptsAssignConst(dst, v)
	vAssert("C12.rule.assignconst.rejects-ill-typed", want || err != nil)
	vAssert("C12.rule.assignconst.accepts-well-typed", !want || err == nil)
}

// ---- the compile pass itself: the checker is called and its verdict kept -------
//
// The real (*Interpreter).cfg runs on a hand-made expression over variables of
// the real universe types: an ill-typed operand pair must make cfg return an
// error (the call site of the checker, not only the checker).
var vhCfgShape = 0 // 0: a OP b (binary), 1: a && b / a || b

// vhAstNode makes a node the way the AST builder (ast.go, addChild) does.
var vhAstIndex int64

func vhAstNode(in *Interpreter, kind nkind, act action) *node {
	var i interface{}
	vhAstIndex++
	n := &node{interp: in, index: vhAstIndex, kind: kind, action: act, val: &i, gen: builtin[act]}
	n.start = n
	return n
}

func vh_C12_cfg() {
	in := vhNewInterp()
	in.universe = initUniverse()
	sc := in.universe.push(false)
	i0 := vConcretizeInt(vNondetInt("t0"), 0, 16)
	i1 := vConcretizeInt(vNondetInt("t1"), 0, 16)
	sc.sym["a"] = &symbol{kind: varSym, index: sc.add(in.universe.getType(vhBasicNames[i0])), typ: in.universe.getType(vhBasicNames[i0])}
	sc.sym["b"] = &symbol{kind: varSym, index: sc.add(in.universe.getType(vhBasicNames[i1])), typ: in.universe.getType(vhBasicNames[i1])}
	a, b := vhAstNode(in, identExpr, aNop), vhAstNode(in, identExpr, aNop)
	a.ident, b.ident = "a", "b"
	op := vhRuleOp
	n := vhAstNode(in, binaryExpr, vhBinActs[op])
	if op == 17 {
		n.kind = landExpr
	} else if op == 18 {
		n.kind = lorExpr
	}
	vhAdoptKids(n, a, b)
	stmt := vhAstNode(in, exprStmt, aNop)
	vhAdoptKids(stmt, n)
	blk := vhAstNode(in, blockStmt, aNop)
	vhAdoptKids(blk, stmt)
	vReach("C12.cfg")
	_, err := in.cfg(blk, sc, "main", "main")
	want := vhGoAcceptsBinary(op, i0, i1)
	vAssert("C12.cfg.rejects-ill-typed", want || err != nil)
	vAssert("C12.cfg.accepts-well-typed", !want || err == nil)
}

// a.(T) through the real cfg: a of any basic type or interface{} (index 17), T basic.
func vhGoAcceptsAssert(i0, i1 int) bool {
	t0 := "interface{}"
	if i0 < len(vhBasicNames) {
		t0 = vhBasicNames[i0]
	}
	return vhGoTypesAccepts("package p\nvar a " + t0 + "\nvar _ = a.(" + vhBasicNames[i1] + ")\n")
}

func vmGoAcceptsAssert(i0, i1 int) bool { return i0 == 17 }

func vh_C12_cfg_assert() {
	in := vhNewInterp()
	in.universe = initUniverse()
	sc := in.universe.push(false)
	i0 := vConcretizeInt(vNondetInt("t0"), 0, 17)
	i1 := vConcretizeInt(vNondetInt("t1"), 0, 16)
	t0 := in.universe.getType("interface{}")
	if i0 < 17 {
		t0 = in.universe.getType(vhBasicNames[i0])
	}
	sc.sym["a"] = &symbol{kind: varSym, index: sc.add(t0), typ: t0}
	a, tn := vhAstNode(in, identExpr, aNop), vhAstNode(in, identExpr, aNop)
	a.ident, tn.ident = "a", vhBasicNames[i1]
	n := vhAstNode(in, typeAssertExpr, aTypeAssert)
	vhAdoptKids(n, a, tn)
	stmt := vhAstNode(in, exprStmt, aNop)
	vhAdoptKids(stmt, n)
	blk := vhAstNode(in, blockStmt, aNop)
	vhAdoptKids(blk, stmt)
	vReach("C12.cfg.assert")
	_, err := in.cfg(blk, sc, "main", "main")
	want := vhGoAcceptsAssert(i0, i1)
	vAssert("C12.cfg.rejects-ill-typed", want || err != nil)
	vAssert("C12.cfg.accepts-well-typed", !want || err == nil)
}
