package interp

// C13 (partial): restricted mode — environment virtualisation and stream
// redirection installed by fixStdlib.
//
// Real code executed from SSA: fixStdlib and every closure it installs for
// os.Getenv/LookupEnv/Setenv/Unsetenv/Clearenv/Environ/ExpandEnv and
// fmt.Print*/Scan*; os.Expand (inlined) for ExpandEnv.
// Host functions (package os, fmt, log) are opaque: any call to them is
// recorded in the path's trace, which is how "never touches the host
// environment" becomes an assertion.

import (
	"bytes"
	"fmt"
	"os"
	"reflect"
	"sort"
	"strings"
)

var vhEnvOp = 0 // 0 Getenv 1 LookupEnv 2 Setenv 3 Unsetenv 4 Clearenv 5 Environ 6 ExpandEnv

const vhEnvChars = "abcXYZ_="

func vhRestricted() (*Interpreter, map[string]string) {
	i := vhNewInterp()
	i.binPkg = map[string]map[string]reflect.Value{
		"fmt": {},
		"os": {"Getenv": reflect.ValueOf(os.Getenv), "LookupEnv": reflect.ValueOf(os.LookupEnv), "Setenv": reflect.ValueOf(os.Setenv),
			"Unsetenv": reflect.ValueOf(os.Unsetenv), "Clearenv": reflect.ValueOf(os.Clearenv), "Environ": reflect.ValueOf(os.Environ), "ExpandEnv": reflect.ValueOf(os.ExpandEnv)},
	}
	i.mapTypes = map[reflect.Value][]reflect.Type{}
	// arbitrary initial virtual environment: two entries with distinct keys
	k1, v1 := vNondetWordN("k", vhEnvChars, 0, 4), vNondetWordN("v", vhEnvChars, 0, 4)
	k2, v2 := vNondetWordN("k", vhEnvChars, 0, 4), vNondetWordN("v", vhEnvChars, 0, 4)
	vAssume(k1 != k2)
	i.env = map[string]string{k1: v1, k2: v2}
	ref := map[string]string{k1: v1, k2: v2}
	return i, ref
}

// one arbitrary operation from an arbitrary state, against a plain map
func vh_C13_env() {
	vhResetClock()
	i, ref := vhRestricted()
	var out bytes.Buffer
	i.stdout, i.stderr, i.stdin = &out, &out, strings.NewReader("")
	if !vSymbolic() {
		os.Setenv("VERIF_C13_SENTINEL", "host")
	}
	fixStdlib(i)
	p := i.binPkg["os"]
	key := vNondetWordN("key", "abcXYZ_", 1, 4)
	val := vNondetWordN("val", vhEnvChars, 0, 4)
	hostBefore, hostSet := "", false
	if !vSymbolic() && key != "" && !strings.Contains(key, "=") {
		// give the host a value under the same key, to see whether the script reaches it
		os.Setenv(key, "host-value")
		hostBefore, hostSet = os.LookupEnv(key)
	}
	vReach("C13.env")
	switch vhEnvOp {
	case 0:
		got := p["Getenv"].Interface().(func(string) string)(key)
		vAssert("C13.env.Getenv", got == ref[key])
	case 1:
		got, ok := p["LookupEnv"].Interface().(func(string) (string, bool))(key)
		want, wok := ref[key]
		vAssert("C13.env.LookupEnv", got == want && ok == wok)
	case 2:
		err := p["Setenv"].Interface().(func(string, string) error)(key, val)
		ref[key] = val
		vAssert("C13.env.Setenv", err == nil)
	case 3:
		err := p["Unsetenv"].Interface().(func(string) error)(key)
		delete(ref, key)
		vAssert("C13.env.Unsetenv", err == nil)
	case 4:
		p["Clearenv"].Interface().(func())()
		ref = map[string]string{}
	case 5:
		got := p["Environ"].Interface().(func() []string)()
		var want []string
		for k, v := range ref {
			want = append(want, k+"="+v)
		}
		sort.Strings(got)
		sort.Strings(want)
		same := len(got) == len(want)
		for j := 0; same && j < len(got); j++ {
			if got[j] != want[j] {
				same = false
			}
		}
		vAssert("C13.env.Environ", same)
	case 6:
		got := p["ExpandEnv"].Interface().(func(string) string)("<$abc|${XYZ}>")
		vAssert("C13.env.ExpandEnv", got == "<"+ref["abc"]+"|"+ref["XYZ"]+">")
	}
	// after any operation the virtual environment equals the reference map at every key
	probe := vNondetWordN("probe", vhEnvChars, 0, 4)
	pv, pok := i.env[probe]
	rv, rok := ref[probe]
	vAssert("C13.env.state", pv == rv && pok == rok)
	// and the host environment was neither read nor written
	vAssert("C13.env.noninterference", vEventCount("opaque:os.") == 0 && vEventCount("opaque:syscall.") == 0)
	if !vSymbolic() {
		hostAfter, hostStill := os.LookupEnv(key)
		vAssert("C13.env.noninterference", os.Getenv("VERIF_C13_SENTINEL") == "host" && hostAfter == hostBefore && hostStill == hostSet)
		if hostSet {
			os.Unsetenv(key)
		}
	}
}


// fmt.Print*/Scan* use the interpreter's streams
func vh_C13_io() {
	vhResetClock()
	i, _ := vhRestricted()
	var out, errw bytes.Buffer
	in := strings.NewReader("42\n43\n44\n")
	i.stdout, i.stderr, i.stdin = &out, &errw, in
	fixStdlib(i)
	p := i.binPkg["fmt"]
	vReach("C13.io")
	msg := vNondetWordN("msg", "abc", 1, 4)
	p["Print"].Interface().(func(...interface{}) (int, error))(msg)
	vAssert("C13.io.Print", vEventArgIs("opaque:fmt.Fprint", 0, i.stdout))
	p["Printf"].Interface().(func(string, ...interface{}) (int, error))("%s", msg)
	vAssert("C13.io.Printf", vEventArgIs("opaque:fmt.Fprintf", 0, i.stdout))
	p["Println"].Interface().(func(...interface{}) (int, error))(msg)
	vAssert("C13.io.Println", vEventArgIs("opaque:fmt.Fprintln", 0, i.stdout))
	var x, y, z int
	p["Scan"].Interface().(func(...interface{}) (int, error))(&x)
	vAssert("C13.io.Scan", vEventArgIs("opaque:fmt.Fscan", 0, i.stdin))
	p["Scanf"].Interface().(func(string, ...interface{}) (int, error))("%d\n", &y)
	vAssert("C13.io.Scanf", vEventArgIs("opaque:fmt.Fscanf", 0, i.stdin))
	p["Scanln"].Interface().(func(...interface{}) (int, error))(&z)
	vAssert("C13.io.Scanln", vEventArgIs("opaque:fmt.Fscanln", 0, i.stdin))
	// host streams never used directly
	vAssert("C13.io.no-host-stream", vEventCount("opaque:fmt.Print") == 0 && vEventCount("opaque:fmt.Scan") == 0)
	if !vSymbolic() {
		vAssert("C13.io.Print", out.String() == msg+msg+msg+"\n" && errw.Len() == 0)
		vAssert("C13.io.Scan", x == 42)
		vAssert("C13.io.Scanf", y == 43)
		vAssert("C13.io.Scanln", z == 44)
	}
}

var vhRegistry = map[string]func(){"vh_C13_env": vh_C13_env, "vh_C13_io": vh_C13_io, "vh_C13_exit": vh_C13_exit, "vh_C13_table": vh_C13_table, "vh_C13_log": vh_C13_log, "vh_C13_flag": vh_C13_flag}

var vhIntVars = map[string]*int{"vhEnvOp": &vhEnvOp, "vhExitFn": &vhExitFn, "vhLogFn": &vhLogFn}

var vhScenarios = map[string]func(map[string]string) bool{}

var _ = fmt.Sprint
