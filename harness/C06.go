package interp

// C06: deferred calls, panic, recover; a panic never escapes Execute.
//
// Real code executed from SSA: runCfg (incl. its deferred unwind function),
// originalExecNode, panicFunc, (*node).cfgErrorf, Execute (deferred recover
// building interp.Panic), (*Interpreter).run.
// The deferred callees are harness closures whose behaviour is chosen by the
// solver: return normally, recover (clear f.recovered, as _recover does for
// a directly deferred callee), or panic with a new value.

import "reflect"

var vhOrder []int

func vh_C06_unwind() {
	vhResetClock()
	vhStopAt = -1
	vhOrder = nil
	i := vhNewInterp()
	doPanic := vNondetBool("panics")
	n := &node{interp: i}
	n.start = n
	n.exec = func(f *frame) bltn {
		if doPanic {
			panic("boom")
		}
		return nil
	}
	f := newFrame(i.frame, 0, i.runid())
	nd := vConcretizeInt(vNondetInt("ndefer"), 0, 3)
	behav := make([]int, nd)
	for k := 0; k < nd; k++ {
		k := k
		behav[k] = vConcretizeInt(vNondetInt("behav"), 0, 2)
		fn := func() {
			vhOrder = append(vhOrder, k)
			switch behav[k] {
			case 1:
				f.recovered = nil // a direct recover() in the deferred callee
			case 2:
				panic("boom2")
			}
		}
		f.deferred = append(f.deferred, []reflect.Value{reflect.ValueOf(fn)})
	}
	var escaped interface{}
	func() {
		defer func() { escaped = recover() }()
		runCfg(n, f, n, nil)
	}()
	// Go semantics: every deferred call runs, once, in stack order, whatever
	// the others do; the panic in flight afterwards is the last one raised
	// and not recovered.
	var want interface{}
	if doPanic {
		want = "boom"
	}
	earlyPanic := false
	for k := 0; k < nd; k++ {
		switch behav[k] {
		case 1:
			want = nil
		case 2:
			want = "boom2"
			if k < nd-1 {
				earlyPanic = true
			}
		}
	}
	orderOK := len(vhOrder) == nd
	for k := 0; orderOK && k < nd; k++ {
		if vhOrder[k] != k {
			orderOK = false
		}
	}
	vReach("C06.unwind")
	// known: a panicking deferred call makes runCfg abandon the remaining ones
	vKnown("C06.panic-in-deferred-skips-rest", earlyPanic)
	vAssert("C06.unwind.order-once", orderOK)
	vKnown("C06.panic-in-deferred-skips-rest", earlyPanic)
	vAssert("C06.unwind.repanic", escaped == want)
}

// Execute turns any panic of the program into an error carrying the value.
func vh_C06_execute() {
	vhResetClock()
	vhStopAt = -1
	i := vhNewInterp()
	v := vNondetString("panicvalue")
	doPanic := vNondetBool("panics")
	root := &node{interp: i}
	root.start = root
	root.exec = func(f *frame) bltn {
		if doPanic {
			panic(v)
		}
		return nil
	}
	p := &Program{pkgName: "main", root: root}
	var escaped interface{}
	var err error
	func() {
		defer func() { escaped = recover() }()
		_, err = i.Execute(p)
	}()
	vReach("C06.execute")
	vAssert("C06.execute.no-escape", escaped == nil)
	if doPanic {
		pe, ok := err.(Panic)
		vAssert("C06.execute.panic-to-error", ok && pe.Value == v)
	} else {
		vAssert("C06.execute.no-error", err == nil)
	}
}

// The interpreter stays usable: after an evaluation ended by an uncaught panic,
// a further (panic-free) evaluation on the same interpreter returns no error.
func vh_C06_reuse() {
	vhResetClock()
	vhStopAt = -1
	i := vhNewInterp()
	mk := func(doPanic bool) *Program {
		root := &node{interp: i}
		root.start = root
		root.exec = func(f *frame) bltn {
			vhSteps++
			if doPanic {
				panic("boom")
			}
			return nil
		}
		return &Program{pkgName: "main", root: root}
	}
	first := vNondetBool("firstPanics")
	_, err1 := i.Execute(mk(first))
	vReach("C06.reuse")
	vAssert("C06.execute.first", (err1 != nil) == first)
	before := vhSteps
	_, err2 := i.Execute(mk(false))
	vAssert("C06.execute.usable-after-panic", err2 == nil && vhSteps == before+1)
}

// "defer p(x); x = 2": the deferred call receives the value x had at the defer
// statement. Real code: the call generator (defer branch), genFunctionWrapper
// and its MakeFunc body, genValue/valueGenerator, runCfg's unwind.
var vhSeenArg int64

var vhArgSlice = 0 // 1: the deferred call's argument is a slice variable (reference kind)

// "defer p(s); s = nil" with s a slice: the deferred call still receives the
// three-element slice.
func vh_C06_defer_slice() {
	vhResetClock()
	vhStopAt = -1
	i := vhNewInterp()
	slT := &itype{cat: sliceT, val: &itype{cat: intT, rtype: reflect.TypeOf(0)}, rtype: reflect.TypeOf([]int{})}
	body := &node{interp: i}
	body.start = body
	body.exec = func(f *frame) bltn {
		vhSeenArg = int64(f.data[0].Len())
		vhSteps++
		return nil
	}
	blk := &node{interp: i, start: body}
	def := &node{interp: i, kind: funcDecl, typ: &itype{cat: funcT, arg: []*itype{slT}, rtype: reflect.TypeOf(func([]int) {})}, types: []reflect.Type{slT.rtype}}
	def.child = []*node{{interp: i}, {interp: i, ident: "p"}, {interp: i}, blk}
	def.val = def
	c0 := &node{interp: i, kind: identExpr, findex: notInFrame, val: def, typ: def.typ}
	x := &node{interp: i, kind: identExpr, findex: 0, typ: slT}
	deferN := &node{interp: i, kind: deferStmt}
	callN := &node{interp: i, kind: callExpr, anc: deferN, child: []*node{c0, x}, typ: def.typ}
	deferN.child = []*node{callN}
	c0.anc, x.anc = callN, callN
	call(callN)
	f := newFrame(i.frame, 1, i.runid())
	f.data[0] = reflect.New(slT.rtype).Elem()
	f.data[0].Set(reflect.ValueOf([]int{1, 2, 3}))
	vReach("C06.defer.slice")
	callN.exec(f)                                   // defer p(s)
	f.data[0].Set(reflect.ValueOf([]int(nil)))      // s = nil
	end := &node{interp: i}
	end.exec = func(*frame) bltn { return nil }
	runCfg(end, f, end, nil)
	vAssert("C06.defer.runs-once", vhSteps == 1)
	vAssert("C06.defer.args-fixed", vhSeenArg == 3)
}

func vh_C06_defer_args() {
	vhResetClock()
	vhStopAt = -1
	i := vhNewInterp()
	intT := &itype{cat: intT, rtype: vTypeOfKind(int(reflect.Int))}
	// func p(v int) { <reads v> }
	var order []int64
	body := &node{interp: i}
	body.start = body
	body.exec = func(f *frame) bltn {
		vhSeenArg = f.data[0].Int()
		order = append(order, vhSeenArg)
		vhSteps++
		return nil
	}
	blk := &node{interp: i, start: body}
	def := &node{interp: i, kind: funcDecl, typ: &itype{cat: funcT, arg: []*itype{intT}, rtype: reflect.TypeOf(func(int) {})}, types: []reflect.Type{intT.rtype}}
	def.child = []*node{{interp: i}, {interp: i, ident: "p"}, {interp: i}, blk}
	def.val = def
	// the statements "defer p(x)" and "defer p(y)" in a function whose frame slots 0, 1 hold x, y
	mk := func(slot int) *node {
		c0 := &node{interp: i, kind: identExpr, findex: notInFrame, val: def, typ: def.typ}
		x := &node{interp: i, kind: identExpr, findex: slot, typ: intT}
		deferN := &node{interp: i, kind: deferStmt}
		callN := &node{interp: i, kind: callExpr, anc: deferN, child: []*node{c0, x}, typ: def.typ}
		deferN.child = []*node{callN}
		c0.anc, x.anc = callN, callN
		call(callN)
		return callN
	}
	d1, d2 := mk(0), mk(1)
	f := newFrame(i.frame, 2, i.runid())
	f.data[0] = reflect.New(intT.rtype).Elem()
	f.data[1] = reflect.New(intT.rtype).Elem()
	a, b, c := vNondetInt64("atDefer"), vNondetInt64("later"), vNondetInt64("second")
	f.data[0].SetInt(a)
	f.data[1].SetInt(c)
	vReach("C06.defer.args")
	d1.exec(f)          // defer p(x)
	f.data[0].SetInt(b) // x = b
	d2.exec(f)          // defer p(y)
	f.data[1].SetInt(b) // y = b
	// the function returns: runCfg unwinds the frame
	end := &node{interp: i}
	end.exec = func(*frame) bltn { return nil }
	runCfg(end, f, end, nil)
	vAssert("C06.defer.runs-once", vhSteps == 2 && len(order) == 2)
	vKnown("C06.defer-args-alias-frame-slot", a != b)
	if len(order) == 2 {
		// the last registered runs first; each sees the value at its defer statement
		vAssert("C06.defer.lifo", order[0] == c || order[0] == b)
		vAssert("C06.defer.args-fixed", order[0] == c && order[1] == a)
	}
}

// defer of a compiled (binary) function: "defer hostFn(x); x = b" through the
// real callBin generator; the deferred call must see the value x had when the
// defer statement ran. The prepend order is covered by two defers.
func vh_C06_defer_bin() {
	vhResetClock()
	vhStopAt = -1
	i := vhNewInterp()
	i.mapTypes = map[reflect.Value][]reflect.Type{}
	intT := &itype{cat: intT, rtype: vTypeOfKind(int(reflect.Int))}
	var order []int64
	host := func(v int) {
		order = append(order, int64(v))
		vhSteps++
	}
	hv := reflect.ValueOf(host)
	ft := &itype{cat: valueT, rtype: hv.Type()}
	mk := func(slot int) *node {
		c0 := &node{interp: i, kind: identExpr, findex: notInFrame, rval: hv, typ: ft}
		x := &node{interp: i, kind: identExpr, findex: slot, typ: intT}
		deferN := &node{interp: i, kind: deferStmt}
		callN := &node{interp: i, kind: callExpr, anc: deferN, child: []*node{c0, x}, typ: ft}
		deferN.child = []*node{callN}
		c0.anc, x.anc = callN, callN
		callBin(callN)
		return callN
	}
	d1, d2 := mk(0), mk(1)
	f := newFrame(i.frame, 2, i.runid())
	f.data[0] = reflect.New(intT.rtype).Elem()
	f.data[1] = reflect.New(intT.rtype).Elem()
	a, b, c := vNondetInt64("atDefer"), vNondetInt64("later"), vNondetInt64("second")
	f.data[0].SetInt(a)
	f.data[1].SetInt(c)
	vReach("C06.defer.bin")
	d1.exec(f)          // defer host(x)
	f.data[0].SetInt(b) // x = b
	d2.exec(f)          // defer host(y)
	f.data[1].SetInt(b) // y = b
	end := &node{interp: i}
	end.exec = func(*frame) bltn { return nil }
	runCfg(end, f, end, nil)
	vAssert("C06.defer.bin.runs-once", vhSteps == 2 && len(order) == 2)
	if len(order) == 2 {
		// last deferred runs first; each sees the value at its defer statement
		vAssert("C06.defer.bin.lifo", order[0] == c || order[0] == b)
		vAssert("C06.defer.bin.args-fixed", order[0] == c && order[1] == a)
	}
}

// recover() is effective only when called directly by the deferred function:
// it looks at the frame of the function that deferred it (f.anc), never further
// up. Real code: the _recover generator and its closure, on a chain of three
// frames each of which may or may not have a panic pending.
func vh_C06_recover() {
	vhResetClock()
	vhStopAt = -1
	i := vhNewInterp()
	anyT := &itype{cat: interfaceT, str: "interface{}"}
	n := &node{interp: i, kind: callExpr, findex: 0, typ: anyT}
	_recover(n)
	g1 := newFrame(i.frame, 1, i.runid()) // an outer function
	g0 := newFrame(g1, 1, i.runid())      // the function that deferred f
	f := newFrame(g0, 1, i.runid())       // the deferred function calling recover()
	var slot interface{}
	f.data[0] = reflect.ValueOf(&slot).Elem()
	p0, p1 := vNondetBool("pendingInCaller"), vNondetBool("pendingFurtherUp")
	if p0 {
		g0.recovered = "panic in the deferring function"
	}
	if p1 {
		g1.recovered = "panic further up"
	}
	vReach("C06.recover")
	n.exec(f)
	if p0 {
		vAssert("C06.recover.returns-callers-panic", slot == "panic in the deferring function")
	} else {
		vAssert("C06.recover.nil-when-not-direct", slot == nil)
	}
	vAssert("C06.recover.clears-only-caller", g0.recovered == nil && (g1.recovered != nil) == p1)
}

var vhRegistry = map[string]func(){"vh_C06_recover": vh_C06_recover, "vh_C06_defer_bin": vh_C06_defer_bin, "vh_C06_unwind": vh_C06_unwind, "vh_C06_execute": vh_C06_execute, "vh_C06_reuse": vh_C06_reuse, "vh_C06_defer_args": vh_C06_defer_args, "vh_C06_defer_slice": vh_C06_defer_slice}

var vhIntVars = map[string]*int{"vhMaxSteps": &vhMaxSteps, "vhNExec": &vhNExec}

var vhScenarios = map[string]func(map[string]string) bool{}
