package interp

// End-to-end: whole interpreted programs against the same programs compiled.
//
// For each program of vhPrograms the real gta, cfg, genRun, Execute and the
// generated closures run under the engine on the tree the real front end
// produces for that source (the parser step only is skipped: the tree is rebuilt
// node by node from a dump made natively on every run, see
// ast_dump_test.go.txt). Inputs come from host functions returning symbolic
// values, outputs go to a host function; the reference is the same program
// text written as a compiled Go function of this file (vhTwins), executed by
// the engine under Go's own semantics. Natively (replays) the harness calls the
// real Eval on the source text.

import (
	"bytes"
	"go/ast"
	"go/token"
	"reflect"
	"sort"
)

var vhProgIdx = 0

func vhProgName() string {
	var names []string
	for k := range vhPrograms {
		names = append(names, k)
	}
	sort.Strings(names)
	return names[vhProgIdx]
}

func vmE2EParse(i *Interpreter, src, name string, inc bool) (ast.Node, error) { return &ast.File{}, nil }

func vmE2EAst(i *Interpreter, f ast.Node) (string, *node, error) {
	pkg, root := vhBuildAST(i, vhProgName())
	return pkg, root, nil
}

// vhAstMk makes a node the way ast.go's addChild does.
func vhAstMk(i *Interpreter, anc *node, kind nkind, act action, pos int) *node {
	var v interface{}
	i.nindex++
	n := &node{anc: anc, interp: i, index: i.nindex, pos: token.Pos(pos), kind: kind, action: act, val: &v, gen: builtin[act]}
	n.start = n
	if anc != nil {
		anc.child = append(anc.child, n)
	}
	return n
}

func vhFullInterp(out *bytes.Buffer) *Interpreter {
	i := &Interpreter{
		opt:      opt{filesystem: &realFS{}, env: map[string]string{}},
		frame:    newFrame(nil, 0, 0),
		fset:     token.NewFileSet(),
		universe: initUniverse(),
		scopes:   map[string]*scope{},
		binPkg:   Exports{"": map[string]reflect.Value{"_error": reflect.ValueOf((*_error)(nil))}},
		mapTypes: map[reflect.Value][]reflect.Type{},
		srcPkg:   imports{},
		pkgNames: map[string]string{},
		rdir:     map[string]bool{},
		hooks:    &hooks{},
		generic:  map[string]*node{},
	}
	i.opt.stdout, i.opt.stderr = out, out
	vhInterp = i
	return i
}

func vh_E2E() {
	vhResetClock()
	vhStopAt = -1
	name := vhProgName()
	a, b := vNondetInt("a"), vNondetInt("b")
	vAssume(a > -1000 && a < 1000 && b > -1000 && b < 1000)
	var got, want []int
	var buf bytes.Buffer
	i := vhFullInterp(&buf)
	i.binPkg["host"] = map[string]reflect.Value{
		"A":   reflect.ValueOf(func() int { return a }),
		"B":   reflect.ValueOf(func() int { return b }),
		"Out": reflect.ValueOf(func(v int) { got = append(got, v) }),
	}
	i.pkgNames["host"] = "host"
	vReach("E2E")
	_, err := i.Eval(vhPrograms[name])
	if ce, ok := err.(*cfgError); ok {
		vDebug("compile error", ce.error)
	} else {
		vDebug("eval error", err)
	}
	// the reference: the same text compiled by the Go toolchain (package e2e_<name>)
	twinPanicked := false
	func() {
		defer func() {
			if recover() != nil {
				twinPanicked = true
			}
		}()
		vhTwinBind[name](func() int { return a }, func() int { return b }, func(v int) { want = append(want, v) })
		vhTwinMain[name]()
	}()
	// a program recorded as a known finding (known_findings.json) is reported as such: the
	// finding is the program, any other program that deviates is a new violation
	vKnown("C01.e2e."+name, true)
	vAssert("E2E.compiles-and-runs-or-panics-like-compiled", (err != nil) == twinPanicked)
	same := len(got) == len(want)
	for k := 0; same && k < len(want); k++ {
		if got[k] != want[k] {
			same = false
		}
	}
	vKnown("C01.e2e."+name, true)
	vAssert("E2E.same-output-as-compiled", same)
}

var vhRegistry = map[string]func(){"vh_E2E": vh_E2E}

var vhIntVars = map[string]*int{"vhProgIdx": &vhProgIdx, "vhMaxSteps": &vhMaxSteps}

var vhScenarios = map[string]func(map[string]string) bool{}
