package interp

// End-to-end: whole interpreted programs against the same programs compiled.
//
// For each program of vhPrograms the real gta, cfg, genRun, Execute and the
// generated closures run under the engine on the tree the real front end
// produces for that source (the parser step only is skipped: the tree is rebuilt
// node by node from a dump made natively on every run, see
// ast_dump_test.go.txt). Inputs come from host functions returning symbolic
// values, outputs go to a host function; the reference is the same program
// text written as a compiled Go function of this file (vhTwins), executed by
// the engine under Go's own semantics. Natively (replays) the harness calls the
// real Eval on the source text.

import (
	"bytes"
	"errors"
	"fmt"
	"go/ast"
	"go/token"
	"io"
	"reflect"
	"sort"
	"strings"

	ht "github.com/traefik/yaegi/interp/e2e_hosttypes"
	"github.com/traefik/yaegi/stdlib"
)

var vhProgIdx = 0

// vhInputBound bounds the two inputs: (-vhInputBound, vhInputBound).
var vhInputBound = 1000

func vhProgName() string {
	var names []string
	for k := range vhPrograms {
		names = append(names, k)
	}
	sort.Strings(names)
	return names[vhProgIdx]
}

func vmE2EParse(i *Interpreter, src, name string, inc bool) (ast.Node, error) { return &ast.File{}, nil }

// vhCurKey names the text being evaluated when it is not the whole program (a chunk).
var vhCurKey = ""

func vmE2EAst(i *Interpreter, f ast.Node) (string, *node, error) {
	key := vhCurKey
	if key == "" {
		key = vhProgName()
	}
	pkg, root := vhBuildAST(i, key)
	return pkg, root, nil
}

// vmStripReceiver is stripReceiverFromArgs without its regular expression (the engine does not
// run the package initialiser which compiles it): `func\(((.*?(, |\)))(.*))` finds the first
// "func(", then the earliest ", " or ")" after it; what follows is kept.
func vmStripReceiver(signature string) (string, error) {
	k := strings.Index(signature, "func(")
	if k < 0 {
		return "", errors.New("error while matching method signature")
	}
	rest := signature[k+5:]
	ic, ip := strings.Index(rest, ", "), strings.Index(rest, ")")
	switch {
	case ip >= 0 && (ic < 0 || ip < ic):
		return "func()" + rest[ip+1:], nil
	case ic >= 0:
		return "func(" + rest[ic+2:], nil
	}
	return "", errors.New("error while matching method signature")
}

// vhAstMk makes a node the way ast.go's addChild does.
func vhAstMk(i *Interpreter, anc *node, kind nkind, act action, pos int) *node {
	var v interface{}
	i.nindex++
	n := &node{anc: anc, interp: i, index: i.nindex, pos: token.Pos(pos), kind: kind, action: act, val: &v, gen: builtin[act]}
	n.start = n
	if anc != nil {
		anc.child = append(anc.child, n)
	}
	return n
}

func vhFullInterp(out *bytes.Buffer) *Interpreter {
	i := &Interpreter{
		opt:      opt{filesystem: &realFS{}, env: map[string]string{}},
		frame:    newFrame(nil, 0, 0),
		fset:     token.NewFileSet(),
		universe: initUniverse(),
		scopes:   map[string]*scope{},
		binPkg:   Exports{"": map[string]reflect.Value{"_error": reflect.ValueOf((*_error)(nil))}},
		mapTypes: map[reflect.Value][]reflect.Type{},
		srcPkg:   imports{},
		pkgNames: map[string]string{},
		rdir:     map[string]bool{},
		hooks:    &hooks{},
		generic:  map[string]*node{},
	}
	i.opt.stdout, i.opt.stderr = out, out
	vhInterp = i
	return i
}

// vhHost is package host: the inputs, and functions recording what the program hands them.
// The interface-typed ones call the methods of the value they receive: for an interpreted
// value these are interpreted methods behind a generated wrapper.
func vhHost(rec *[]int, a, b int) map[string]interface{} {
	out := func(v int) { *rec = append(*rec, v) }
	return map[string]interface{}{
		"A":   func() int { return a },
		"B":   func() int { return b },
		"Out": out,
		"Str": func(s fmt.Stringer) { out(len(s.String())) },
		"Err": func(e error) { out(len(e.Error())) },
		"Sort": func(x sort.Interface) {
			// one bubble pass: Len, Less and Swap of the value
			n := x.Len()
			out(n)
			for k := 1; k < n; k++ {
				if x.Less(k, k-1) {
					x.Swap(k, k-1)
				}
			}
		},
		"Read": func(r io.Reader) {
			buf := make([]byte, 4)
			n, err := r.Read(buf)
			out(n)
			out(int(buf[0]))
			if err != nil {
				out(-1)
			}
		},
		// what io.Copy does: a reader that also has WriteTo is asked to write itself
		"Copy": func(r io.Reader) {
			var sink vhSink
			if wt, ok := r.(io.WriterTo); ok {
				n, _ := wt.WriteTo(&sink)
				out(1)
				out(int(n))
			} else {
				buf := make([]byte, 4)
				n, _ := r.Read(buf)
				out(2)
				out(n)
			}
			out(sink.total)
		},
		// --- values of every shape crossing the boundary (property C07): each function
		// uses what it receives and hands back results computed natively
		"Swap":    func(p ht.Pair) ht.Pair { out(p.A); return ht.Pair{A: p.B, B: p.A} },
		"Scale":   func(p *ht.Pair, k int) { p.A *= k; p.B *= k },
		"NewPair": func(x, y int) *ht.Pair { return &ht.Pair{A: x, B: y} },
		"SumGrid": func(g ht.Grid) int { return g[0][0] + 10*g[0][1] + 100*g[1][0] + 1000*g[1][1] },
		"FillGrid": func(g *ht.Grid, v int) {
			for r := 0; r < 2; r++ {
				for c := 0; c < 2; c++ {
					g[r][c] = v + r*2 + c
				}
			}
		},
		"SumSlice": func(xs []int) int {
			t := len(xs) * 1000
			for _, x := range xs {
				t += x
			}
			return t
		},
		"Double": func(xs []int) {
			for k := range xs {
				xs[k] *= 2
			}
		},
		"Grow": func(xs []int, v int) []int { return append(xs, v, v+1) },
		"SumMap": func(m map[string]int) int {
			t := len(m) * 1000
			for _, k := range []string{"a", "b", "c"} {
				t += m[k]
			}
			return t
		},
		"SetKey": func(m map[string]int, k string, v int) { m[k] = v },
		"ScaleAll": func(k int, xs ...int) {
			for j := range xs {
				xs[j] *= k
			}
		},
		"VarShape": func(xs ...int) int {
			if xs == nil {
				return -1
			}
			return len(xs)*10 + cap(xs)
		},
		"Var": func(base int, xs ...int) int {
			t := base*100 + len(xs)
			for _, x := range xs {
				t += x
			}
			return t
		},
		"DivMod": func(x, y int) (int, int, error) {
			if y == 0 {
				return 0, 0, errors.New("division by zero")
			}
			return x / y, x % y, nil
		},
		"Apply":     func(f func(int) int, x int) int { return f(x) + f(x+1) },
		"Compose":   func(f, g func(int) int) func(int) int { return func(x int) int { return g(f(x)) } },
		"MakeAdder": func(n int) func(int) int { return func(x int) int { n++; return x + n } },
		"Kinds": func(bl bool, i8 int8, u16 uint16, str string, r rune) (int8, uint16, string) {
			if bl {
				i8++
			}
			return i8 + 1, u16 * 2, str + string(r)
		},
		"SumPairs": func(ps []ht.Pair) ht.Pair {
			var t ht.Pair
			for _, p := range ps {
				t.A += p.A
				t.B += p.B
			}
			return t
		},
		"Each": func(m map[string]ht.Pair, f func(string, ht.Pair)) {
			for _, k := range []string{"x", "y"} {
				if p, ok := m[k]; ok {
					f(k, p)
				}
			}
		},
		"Rename": func(n ht.Named) ht.Named { return n*2 + 1 },
		"Visit": func(f func(ht.Pair) (int, error)) int {
			v, err := f(ht.Pair{A: 3, B: 4})
			if err != nil {
				return -len(err.Error())
			}
			return v
		},
		// what the fmt print functions do with their operands: an error is asked for Error(),
		// else a Stringer for String(); reached with the composed-interface list of fmt.Println
		"Show": func(args ...interface{}) {
			for _, x := range args {
				switch v := x.(type) {
				case error:
					out(1000 + len(v.Error()))
				case fmt.Stringer:
					out(2000 + len(v.String()))
				case int:
					out(v)
				default:
					out(-1)
				}
			}
		},
		// what compiled code sees of a value passed as interface{}: its kind and size, not a wrapper
		"Shape": func(x interface{}) int {
			v := reflect.ValueOf(x)
			switch v.Kind() {
			case reflect.Struct:
				return 100 + v.NumField()
			case reflect.Ptr:
				if v.IsNil() {
					return 200
				}
				return 200 + int(v.Elem().Kind())
			case reflect.Int:
				return 300
			case reflect.Invalid:
				return -1
			}
			return int(v.Kind())
		},
		"IsPos": func(x int) bool { return x > 0 },
		"Two":   func(x int) (int, int) { return x + 1, x * 2 },
		"Add":   func(x, y int) int { return x + y },
		"Sub":   func(x, y int) int { return x - y },
		"Repeat": func(f func(int) int, n int) int {
			t := 0
			for k := 0; k < n; k++ {
				t = f(t + k)
			}
			return t
		},
		"Join": func(xs ...fmt.Stringer) {
			t := len(xs) * 100
			for _, x := range xs {
				t += len(x.String())
			}
			out(t)
		},
		"Write": func(w io.Writer) {
			n, err := w.Write([]byte{1, 2, 3})
			out(n)
			if err != nil {
				out(-1)
			}
		},
	}
}

// vhSink is the writer host.Copy hands to a WriteTo method.
type vhSink struct{ total int }

func (s *vhSink) Write(p []byte) (int, error) {
	for _, c := range p {
		s.total += int(c)
	}
	return len(p), nil
}

// vhPropNum is the number of the property the corpus belongs to (names of known findings).
var vhPropNum = 1

func vhFindingPrefix() string {
	switch vhPropNum {
	case 5:
		return "C05.e2e."
	case 7:
		return "C07.e2e."
	case 11:
		return "C11.e2e."
	}
	return "C01.e2e."
}

func vh_E2E() {
	vhResetClock()
	vhStopAt = -1
	name := vhProgName()
	a, b := vNondetInt("a"), vNondetInt("b")
	vAssume(a > -vhInputBound && a < vhInputBound && b > -vhInputBound && b < vhInputBound)
	var got, want []int
	var buf bytes.Buffer
	i := vhFullInterp(&buf)
	hostTab := map[string]reflect.Value{}
	for k, fn := range vhHost(&got, a, b) {
		hostTab[k] = reflect.ValueOf(fn)
	}
	// host.Show is treated as the fmt print functions are: same list of interfaces to wrap operands for
	i.mapTypes[hostTab["Show"]] = stdlib.MapTypes[reflect.ValueOf(fmt.Println)]
	hostTab["Pair"] = reflect.ValueOf((*ht.Pair)(nil))
	hostTab["Grid"] = reflect.ValueOf((*ht.Grid)(nil))
	hostTab["Named"] = reflect.ValueOf((*ht.Named)(nil))
	i.binPkg["host"] = hostTab
	i.pkgNames["host"] = "host"
	// the wrappers compiled code needs to call interpreted methods (fmt.Stringer, ...): those of the default table
	for _, pk := range []string{"errors", "fmt", "io", "sort"} {
		tab := map[string]reflect.Value{}
		for k, v := range stdlib.Symbols[pk+"/"+pk] {
			tab[k] = v
		}
		i.binPkg[pk] = tab
		i.pkgNames[pk] = pk
	}
	// the composed wrappers (a reader with WriteTo, a writer with ReadFrom, ...)
	for k, v := range stdlib.MapTypes {
		i.mapTypes[k] = v
	}
	vReach("E2E")
	_, err := i.Eval(vhPrograms[name])
	if ce, ok := err.(*cfgError); ok {
		vDebug("compile error", ce.error)
	} else {
		vDebug("eval error", err)
	}
	// the reference: the same text compiled by the Go toolchain (package e2e_<name>)
	twinPanicked := false
	func() {
		defer func() {
			if recover() != nil {
				twinPanicked = true
			}
		}()
		vhTwinBind[name](vhHost(&want, a, b))
		vhTwinMain[name]()
	}()
	// what the program exports, used natively on both sides: functions obtained from the
	// interpreter (Symbols) called with the inputs, package variables read after the run
	if ex := vhTwinExports[name]; len(ex) > 0 && err == nil && !twinPanicked {
		syms := i.Symbols("main")["main"]
		var keys []string
		for k := range ex {
			keys = append(keys, k)
		}
		sort.Strings(keys)
		// first the variables: read through Symbols, then read and written through Globals
		for _, k := range keys {
			tf, isVar := ex[k].(*int)
			if !isVar {
				continue
			}
			sv, found := syms[k]
			want = append(want, *tf)
			if found && sv.Kind() == reflect.Int {
				got = append(got, int(sv.Int()))
			}
			*tf += 5
			want = append(want, *tf)
			if gv, ok := i.Globals()[k]; ok && gv.Kind() == reflect.Int {
				gv.SetInt(gv.Int() + 5)
				got = append(got, int(gv.Int()))
			}
		}
		// then the functions, called natively (they see the values the host wrote)
		for _, k := range keys {
			sv, found := syms[k]
			if !found {
				got = append(got, -424242)
				continue
			}
			switch tf := ex[k].(type) {
			case func(int) int:
				want = append(want, tf(a), tf(b))
				if f, ok := sv.Interface().(func(int) int); ok {
					got = append(got, f(a), f(b))
				}
			case func(int, int) int:
				want = append(want, tf(a, b), tf(b, 1))
				if f, ok := sv.Interface().(func(int, int) int); ok {
					got = append(got, f(a, b), f(b, 1))
				}
			}
		}
		// and the variables again, as the functions left them
		for _, k := range keys {
			if tf, isVar := ex[k].(*int); isVar {
				want = append(want, *tf)
				if gv, ok := i.Globals()[k]; ok && gv.Kind() == reflect.Int {
					got = append(got, int(gv.Int()))
				}
			}
		}
	}
	// a program recorded as a known finding (known_findings.json) is reported as such: the
	// finding is the program, any other program that deviates is a new violation
	vKnown(vhFindingPrefix()+name, true)
	vAssert("E2E.compiles-and-runs-or-panics-like-compiled", (err != nil) == twinPanicked)
	same := len(got) == len(want)
	for k := 0; same && k < len(want); k++ {
		if got[k] != want[k] {
			same = false
		}
	}
	if !same {
		for k := 0; k < len(got) && k < len(want); k++ {
			if got[k] != want[k] {
				vDebug("first difference at", k)
				vDebug("got", got[k])
				vDebug("want", want[k])
				break
			}
		}
	}
	vKnown(vhFindingPrefix()+name, true)
	vAssert("E2E.same-output-as-compiled", same)
}

// vhScheme selects the way the program is cut into chunks (index in vhChunks[name]).
var vhScheme = 0

// vhEvalHost prepares an interpreter with package host recording into rec.
func vhEvalHost(buf *bytes.Buffer, rec *[]int, a, b int) *Interpreter {
	i := vhFullInterp(buf)
	hostTab := map[string]reflect.Value{}
	for k, fn := range vhHost(rec, a, b) {
		hostTab[k] = reflect.ValueOf(fn)
	}
	// host.Show is treated as the fmt print functions are: same list of interfaces to wrap operands for
	i.mapTypes[hostTab["Show"]] = stdlib.MapTypes[reflect.ValueOf(fmt.Println)]
	hostTab["Pair"] = reflect.ValueOf((*ht.Pair)(nil))
	hostTab["Grid"] = reflect.ValueOf((*ht.Grid)(nil))
	hostTab["Named"] = reflect.ValueOf((*ht.Named)(nil))
	i.binPkg["host"] = hostTab
	i.pkgNames["host"] = "host"
	for _, pk := range []string{"errors", "fmt", "io", "sort"} {
		tab := map[string]reflect.Value{}
		for k, v := range stdlib.Symbols[pk+"/"+pk] {
			tab[k] = v
		}
		i.binPkg[pk] = tab
		i.pkgNames[pk] = pk
	}
	for k, v := range stdlib.MapTypes {
		i.mapTypes[k] = v
	}
	return i
}

// vh_E2E_chunks: the program evaluated in one piece against the same program fed to another
// interpreter through a sequence of Eval calls (vhChunks[name][vhScheme]); both by the real
// pipeline, under the engine on the trees of the real front end for each text.
func vh_E2E_chunks() {
	vhResetClock()
	vhStopAt = -1
	name := vhProgName()
	a, b := vNondetInt("a"), vNondetInt("b")
	vAssume(a > -vhInputBound && a < vhInputBound && b > -vhInputBound && b < vhInputBound)
	schemes := vhChunks[name]
	var chunks []string
	if vhScheme >= 0 {
		if vhScheme >= len(schemes) || len(schemes[vhScheme]) == 0 {
			return // no such cut for this program
		}
		chunks = schemes[vhScheme]
	}
	var whole, pieces []int
	var buf1, buf2 bytes.Buffer
	i1 := vhEvalHost(&buf1, &whole, a, b)
	vReach("E2E_chunks")
	vhCurKey = ""
	_, err1 := i1.Eval(vhPrograms[name])
	i2 := vhEvalHost(&buf2, &pieces, a, b)
	var err2 error
	if vhScheme < 0 {
		// the other entry point: Compile, then Execute
		var prog *Program
		if prog, err2 = i2.Compile(vhPrograms[name]); err2 == nil {
			_, err2 = i2.Execute(prog)
		}
	}
	for k, c := range chunks {
		vhCurKey = name + "#" + itoa(vhScheme) + "#" + itoa(k)
		if _, err2 = i2.Eval(c); err2 != nil {
			break
		}
	}
	vhCurKey = ""
	vDebug("whole error", err1)
	vDebug("pieces error", err2)
	vAssert("C11.same-termination", (err1 != nil) == (err2 != nil))
	same := len(whole) == len(pieces)
	for k := 0; same && k < len(whole); k++ {
		if whole[k] != pieces[k] {
			same = false
		}
	}
	vAssert("C11.same-output", same)
}

func itoa(n int) string {
	if n == 0 {
		return "0"
	}
	s := ""
	for n > 0 {
		s = string(rune('0'+n%10)) + s
		n /= 10
	}
	return s
}

var vhRegistry = map[string]func(){"vh_E2E": vh_E2E, "vh_E2E_chunks": vh_E2E_chunks}

var vhIntVars = map[string]*int{"vhProgIdx": &vhProgIdx, "vhPropNum": &vhPropNum, "vhScheme": &vhScheme, "vhInputBound": &vhInputBound, "vhMaxSteps": &vhMaxSteps}

var vhScenarios = map[string]func(map[string]string) bool{}
