package interp

// C13: the calls meant to end the process surface as recoverable panics.
//
// Real code: the initialisers of stdlib/go1_2x_os.go and go1_2x_log.go (the
// tables a script's "os" and "log" imports resolve in) and the functions they
// bind for Exit, Fatal, Fatalf, Fatalln, New and the Fatal methods of the
// logger type (stdlib/restricted.go). Host functions (os.Exit, log.Fatal*,
// log.Panic*, (*log.Logger).*) are opaque and recorded: the obligation is that
// no process-ending function is ever reached and that a panic is raised (by
// the function itself, or by handing over to a log.Panic* function).

import (
	"bytes"
	"path"
	"reflect"
	"strings"

	"github.com/traefik/yaegi/stdlib"
)

var vhExitFn = 0

// vhHostExit0: natively, os.Exit(0) inside a test binary is turned by the
// testing package into the panic "unexpected call to os.Exit(0) during test":
// that is the host exit being reached, not the recoverable panic of the property.
var vhHostExit0 bool

func vhExitCall(f func()) (panicked bool) {
	defer func() {
		if r := recover(); r != nil {
			if !vSymbolic() {
				if s, ok := r.(string); ok && strings.Contains(s, "unexpected call to os.Exit(0)") {
					vhHostExit0 = true
					return
				}
			}
			panicked = true
		}
	}()
	f()
	return false
}

func vh_C13_exit() {
	vhHostExit0 = false
	code := vNondetInt("code")
	msg := vNondetWordN("msg", "abc", 1, 4)
	osSyms, logSyms := stdlib.Symbols["os/os"], stdlib.Symbols["log/log"]
	vReach("C13.exit")
	var sym reflect.Value
	bound := true
	panicked := false
	switch vhExitFn {
	case 0:
		sym = osSyms["Exit"]
		if f, ok := sym.Interface().(func(int)); ok {
			panicked = vhExitCall(func() { f(code) })
		} else {
			bound = false
		}
	case 1, 3:
		name := "Fatal"
		if vhExitFn == 3 {
			name = "Fatalln"
		}
		sym = logSyms[name]
		if f, ok := sym.Interface().(func(...interface{})); ok {
			panicked = vhExitCall(func() { f(msg) })
		} else {
			bound = false
		}
	case 2:
		sym = logSyms["Fatalf"]
		if f, ok := sym.Interface().(func(string, ...interface{})); ok {
			panicked = vhExitCall(func() { f("%s", msg) })
		} else {
			bound = false
		}
	default:
		// a logger made by the bound New; its Fatal, Fatalf, Fatalln methods
		var out bytes.Buffer
		mk := logSyms["New"]
		lg := mk.Call([]reflect.Value{reflect.ValueOf(&out), reflect.ValueOf("p"), reflect.ValueOf(0)})[0]
		// the type a script names log.Logger is the type New returns
		vAssert("C13.exit.logger-type", logSyms["Logger"].Type() == lg.Type())
		name := []string{"Fatal", "Fatalf", "Fatalln"}[vhExitFn-4]
		m := lg.MethodByName(name)
		if !m.IsValid() {
			bound = false
			break
		}
		args := []reflect.Value{reflect.ValueOf(msg)}
		if name == "Fatalf" {
			args = []reflect.Value{reflect.ValueOf("%s"), reflect.ValueOf(msg)}
		}
		panicked = vhExitCall(func() { m.Call(args) })
	}
	vAssert("C13.exit.bound", bound)
	if !bound {
		return
	}
	// no process-ending host function is reached (natively: we are still here)
	hostExit := vEventCount("opaque:os.Exit") + vEventCount("opaque:log.Fatal") + vEventCount("opaque:(*log.Logger).Fatal") +
		vEventCount("opaque:syscall.Exit") + vEventCount("opaque:runtime.Goexit")
	vAssert("C13.exit.no-host-exit", hostExit == 0 && !vhHostExit0)
	if vSymbolic() {
		// host log.Panic* functions are opaque: handing over to exactly one of them is the panic
		handed := vEventCount("opaque:log.Panic") + vEventCount("opaque:(*log.Logger).Panic")
		vAssert("C13.exit.panics", panicked != (handed == 1))
	} else {
		vAssert("C13.exit.panics", panicked)
	}
}

// The default symbol table (every initialiser of package stdlib executed):
// no key resolves the import paths unsafe, syscall or os/exec, under the same
// key-to-path rule Use applies (path.Dir of the key).
func vh_C13_table() {
	vReach("C13.table")
	n := 0
	bad := 0
	for k := range stdlib.Symbols {
		n++
		switch path.Dir(k) {
		case "unsafe", "syscall", "os/exec":
			bad++
		}
	}
	vAssert("C13.table.populated", n > 100 && len(stdlib.Symbols["os/os"]) > 50 && len(stdlib.Symbols["fmt/fmt"]) > 10)
	vAssert("C13.table.no-dangerous-package", bad == 0)
}
