package interp

// C13: the calls meant to end the process surface as recoverable panics.
//
// Real code: the initialisers of stdlib/go1_2x_os.go and go1_2x_log.go (the
// tables a script's "os" and "log" imports resolve in) and the functions they
// bind for Exit, Fatal, Fatalf, Fatalln, New and the Fatal methods of the
// logger type (stdlib/restricted.go). Host functions (os.Exit, log.Fatal*,
// log.Panic*, (*log.Logger).*) are opaque and recorded: the obligation is that
// no process-ending function is ever reached and that a panic is raised (by
// the function itself, or by handing over to a log.Panic* function).

import (
	"bytes"
	"flag"
	"io"
	"path"
	"reflect"
	"strings"

	"github.com/traefik/yaegi/stdlib"
)

var vhExitFn = 0

// vhHostExit0: natively, os.Exit(0) inside a test binary is turned by the
// testing package into the panic "unexpected call to os.Exit(0) during test":
// that is the host exit being reached, not the recoverable panic of the property.
var vhHostExit0 bool

func vhExitCall(f func()) (panicked bool) {
	defer func() {
		if r := recover(); r != nil {
			if !vSymbolic() {
				if s, ok := r.(string); ok && strings.Contains(s, "unexpected call to os.Exit(0)") {
					vhHostExit0 = true
					return
				}
			}
			panicked = true
		}
	}()
	f()
	return false
}

func vh_C13_exit() {
	vhHostExit0 = false
	code := vNondetInt("code")
	msg := vNondetWordN("msg", "abc", 1, 4)
	osSyms, logSyms := stdlib.Symbols["os/os"], stdlib.Symbols["log/log"]
	vReach("C13.exit")
	var sym reflect.Value
	bound := true
	panicked := false
	switch vhExitFn {
	case 0:
		sym = osSyms["Exit"]
		if f, ok := sym.Interface().(func(int)); ok {
			panicked = vhExitCall(func() { f(code) })
		} else {
			bound = false
		}
	case 1, 3:
		name := "Fatal"
		if vhExitFn == 3 {
			name = "Fatalln"
		}
		sym = logSyms[name]
		if f, ok := sym.Interface().(func(...interface{})); ok {
			panicked = vhExitCall(func() { f(msg) })
		} else {
			bound = false
		}
	case 2:
		sym = logSyms["Fatalf"]
		if f, ok := sym.Interface().(func(string, ...interface{})); ok {
			panicked = vhExitCall(func() { f("%s", msg) })
		} else {
			bound = false
		}
	default:
		// a logger made by the bound New; its Fatal, Fatalf, Fatalln methods
		var out bytes.Buffer
		mk := logSyms["New"]
		lg := mk.Call([]reflect.Value{reflect.ValueOf(&out), reflect.ValueOf("p"), reflect.ValueOf(0)})[0]
		// the type a script names log.Logger is the type New returns
		vAssert("C13.exit.logger-type", logSyms["Logger"].Type() == lg.Type())
		name := []string{"Fatal", "Fatalf", "Fatalln"}[vhExitFn-4]
		m := lg.MethodByName(name)
		if !m.IsValid() {
			bound = false
			break
		}
		args := []reflect.Value{reflect.ValueOf(msg)}
		if name == "Fatalf" {
			args = []reflect.Value{reflect.ValueOf("%s"), reflect.ValueOf(msg)}
		}
		panicked = vhExitCall(func() { m.Call(args) })
	}
	vAssert("C13.exit.bound", bound)
	if !bound {
		return
	}
	// no process-ending host function is reached (natively: we are still here)
	hostExit := vEventCount("opaque:os.Exit") + vEventCount("opaque:log.Fatal") + vEventCount("opaque:(*log.Logger).Fatal") +
		vEventCount("opaque:syscall.Exit") + vEventCount("opaque:runtime.Goexit")
	vAssert("C13.exit.no-host-exit", hostExit == 0 && !vhHostExit0)
	if vSymbolic() {
		// host log.Panic* functions are opaque: handing over to exactly one of them is the panic
		handed := vEventCount("opaque:log.Panic") + vEventCount("opaque:(*log.Logger).Panic")
		vAssert("C13.exit.panics", panicked != (handed == 1))
	} else {
		vAssert("C13.exit.panics", panicked)
	}
}

// The default symbol table (every initialiser of package stdlib executed):
// no key resolves the import paths unsafe, syscall or os/exec, under the same
// key-to-path rule Use applies (path.Dir of the key).
func vh_C13_table() {
	vReach("C13.table")
	n := 0
	bad := 0
	for k := range stdlib.Symbols {
		n++
		switch path.Dir(k) {
		case "unsafe", "syscall", "os/exec":
			bad++
		}
	}
	vAssert("C13.table.populated", n > 100 && len(stdlib.Symbols["os/os"]) > 50 && len(stdlib.Symbols["fmt/fmt"]) > 10)
	vAssert("C13.table.no-dangerous-package", bad == 0)
}

// log and flag redirection: starting from the tables a script really gets
// (the default table built by the stdlib initialisers), fixStdlib must rebind
// every function of package log to a private logger writing to Options.Stderr
// and flag.CommandLine to a private flag set that panics on error (instead of
// exiting) and prints to Options.Stderr.
var vhLogFns = []string{"Output", "Print", "Printf", "Println", "Panic", "Panicf", "Panicln", "Fatal", "Fatalf", "Fatalln", "Flags", "Prefix", "SetFlags", "SetPrefix", "SetOutput", "Writer"}

var vhLogFn = 0

func vhCopyTable(key string) map[string]reflect.Value {
	m := map[string]reflect.Value{}
	for k, v := range stdlib.Symbols[key] {
		m[k] = v
	}
	return m
}

func vh_C13_log() {
	vhResetClock()
	i := vhNewInterp()
	var out, errw bytes.Buffer
	i.stdout, i.stderr, i.stdin = &out, &errw, strings.NewReader("")
	i.binPkg = map[string]map[string]reflect.Value{"fmt": vhCopyTable("fmt/fmt"), "log": vhCopyTable("log/log"), "flag": vhCopyTable("flag/flag")}
	i.mapTypes = map[reflect.Value][]reflect.Type{}
	fixStdlib(i)
	name := vhLogFns[vhLogFn]
	sym := i.binPkg["log"][name]
	vReach("C13.log")
	// exactly one private logger, created on the interpreter's stderr
	vAssert("C13.log.private-logger", !vSymbolic() || (vEventCount("opaque:log.New") == 1 && vEventArgIs("opaque:log.New", 0, i.stderr)))
	msg := "m"
	vhExitCall(func() {
		switch f := sym.Interface().(type) {
		case func(int, string) error:
			f(1, msg)
		case func(...interface{}):
			f(msg)
		case func(string, ...interface{}):
			f("%s", msg)
		case func() int:
			f()
		case func() string:
			f()
		case func(int):
			f(0)
		case func(string):
			f("")
		case func(io.Writer):
			f(&errw)
		case func() io.Writer:
			f()
		default:
			vAssert("C13.log.callable", false)
		}
	})
	// the call reached a method of a *log.Logger, never the host's package-level function
	vAssert("C13.log.redirected", vEventCount("opaque:log."+name) == 0 && (!vSymbolic() || vEventCount("opaque:(*log.Logger).") == 1))
	if !vSymbolic() {
		switch name {
		case "Output", "Print", "Printf", "Println", "Panic", "Panicf", "Panicln", "Fatal", "Fatalf", "Fatalln":
			vAssert("C13.log.redirected", strings.Contains(errw.String(), msg) && out.Len() == 0)
		}
	}
}

func vh_C13_flag() {
	vhResetClock()
	i := vhNewInterp()
	var out, errw bytes.Buffer
	i.stdout, i.stderr, i.stdin = &out, &errw, strings.NewReader("")
	i.binPkg = map[string]map[string]reflect.Value{"fmt": vhCopyTable("fmt/fmt"), "flag": vhCopyTable("flag/flag")}
	i.mapTypes = map[reflect.Value][]reflect.Type{}
	fixStdlib(i)
	vReach("C13.flag")
	if vSymbolic() {
		vAssert("C13.flag.panics-on-error", vEventCount("opaque:flag.NewFlagSet") == 1 && vEventArgIs("opaque:flag.NewFlagSet", 1, flag.PanicOnError))
		vAssert("C13.flag.output", vEventArgIs("opaque:(*flag.FlagSet).SetOutput", 1, i.stderr))
		return
	}
	fs, ok := i.binPkg["flag"]["CommandLine"].Interface().(*flag.FlagSet)
	vAssert("C13.flag.panics-on-error", ok && fs != flag.CommandLine && fs.ErrorHandling() == flag.PanicOnError)
	vAssert("C13.flag.output", ok && fs.Output() == io.Writer(&errw))
}
