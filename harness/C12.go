package interp

// C12 (narrow): whole-program compilation strictly precedes execution.
//
// Real code executed from SSA: (*Interpreter).eval, Eval, compileSrc,
// CompileAST. The compile stages parse, ast, gtaRetry, cfg and Execute are
// replaced by models that fail on the solver's command, so that every
// combination of stage outcomes is covered.

import (
	"bytes"
	"errors"
	"go/ast"
	"reflect"
	"strings"
)

var (
	vhFail    [4]bool // stage i (parse, ast, gta, cfg) reports an error
	vhStages  []int   // stages entered, in order
	vhRanN    int     // number of Execute calls
	vhNilRoot bool    // ast yields no root (empty source)
)

func vmParse(i *Interpreter, src, name string, inc bool) (ast.Node, error) {
	vhStages = append(vhStages, 0)
	if vhFail[0] {
		return nil, errors.New("parse error")
	}
	return &ast.File{}, nil
}

func vmAst(i *Interpreter, n ast.Node) (string, *node, error) {
	vhStages = append(vhStages, 1)
	if vhFail[1] {
		return "", nil, errors.New("ast error")
	}
	if vhNilRoot {
		return "main", nil, nil
	}
	return "main", &node{interp: i, kind: fileStmt}, nil
}

func vmGtaRetry(i *Interpreter, nodes []*node, importPath, pkgName string) error {
	vhStages = append(vhStages, 2)
	if vhFail[2] {
		return errors.New("gta error")
	}
	return nil
}

func vmCfg(i *Interpreter, root *node, sc *scope, importPath, pkgName string) ([]*node, error) {
	vhStages = append(vhStages, 3)
	if vhFail[3] {
		return nil, errors.New("cfg error")
	}
	i.scopes[pkgName] = &scope{sym: map[string]*symbol{}}
	return nil, nil
}

func vmExecute(i *Interpreter, p *Program) (reflect.Value, error) {
	vhRanN++
	return reflect.Value{}, nil
}

func vh_C12_eval() {
	vhResetClock()
	vhStopAt = -1
	i := vhNewInterp()
	i.srcPkg = map[string]map[string]*symbol{}
	i.pkgNames = map[string]string{}
	i.universe.sym = map[string]*symbol{}
	for k := 0; k < 4; k++ {
		vhFail[k] = vNondetBool("fail")
	}
	vhNilRoot = vNondetBool("nilroot")
	vhStages, vhRanN = nil, 0
	vReach("C12.eval")
	_, err := i.Eval("src")
	anyFail := false
	for _, s := range vhStages {
		if vhFail[s] {
			anyFail = true
		}
	}
	// a failing stage: error returned, nothing executed, no later stage entered
	if anyFail {
		vAssert("C12.no-run-on-error.eval", vhRanN == 0 && err != nil)
		vAssert("C12.stops-at-first-error", vhFail[vhStages[len(vhStages)-1]])
	} else if !vhNilRoot {
		// the unmodified well-formed program is compiled completely, then executed once
		vAssert("C12.run-when-ok.eval", vhRanN == 1 && err == nil && len(vhStages) == 4)
	}
}

// ---- Execute's own static step: the global-variable wiring ---------------
//
// genGlobalVars reports the "variable definition loop" error after the
// program's root has been set up but before any init function or main runs.

var vhFailGlobals bool

func vmGenGlobalVarsFail(roots []*node, sc *scope) (*node, error) {
	if vhFailGlobals {
		return nil, errors.New("variable definition loop")
	}
	return nil, nil
}

func vh_C12_execute() {
	vhResetClock()
	vhStopAt = -1
	i := vhNewInterp()
	vhFailGlobals = vNondetBool("globalsFail")
	root := &node{interp: i}
	root.start = root
	root.exec = func(*frame) bltn { return nil } // package-level declarations only
	initRan := 0
	in := &node{interp: i}
	in.start = in
	in.exec = func(*frame) bltn { initRan++; return nil }
	vReach("C12.execute")
	_, err := i.Execute(&Program{pkgName: "main", root: root, init: []*node{in, in}})
	if vhFailGlobals {
		vAssert("C12.no-run-on-error.execute", err != nil && initRan == 0)
	} else {
		vAssert("C12.run-when-ok.execute", err == nil && initRan == 2)
	}
}

// ---- native scenarios (replay of protocol counterexamples) ---------------

func vhScenarioC12(model map[string]string) bool {
	progs := []string{
		"package main\nfunc init() { println(\"RAN\") }\nfunc main() { println(\"RAN\" }",
		"package main\nvar x undefinedType\nfunc init() { println(\"RAN\") }\nfunc main() {}",
		"package main\nfunc init() { println(\"RAN\") }\nfunc main() { var s string = 1; _ = s }",
		"package main\nfunc init() { println(\"RAN\") }\nfunc f() int { return \"x\" }\nfunc main() { f() }",
	}
	violated := false
	for _, src := range progs {
		var out bytes.Buffer
		i := New(Options{Stdout: &out, Stderr: &out})
		_, err := i.Eval(src)
		if err == nil || strings.Contains(out.String(), "RAN") {
			violated = true
		}
	}
	return violated
}

func vhScenarioC12Loop(map[string]string) bool {
	// an initialisation cycle through function bodies is only seen by Execute's genGlobalVars
	src := "package main\nvar x = f()\nvar y = g()\nfunc f() int { return y }\nfunc g() int { return x }\nfunc init() { println(\"RAN\") }\nfunc main() { println(\"RAN\") }\n"
	var out bytes.Buffer
	ip := New(Options{Stdout: &out, Stderr: &out})
	_, err := ip.Eval(src)
	return err == nil || strings.Contains(out.String(), "RAN")
}

var vhScenarios = map[string]func(map[string]string) bool{
	"C12.no-run-on-error.execute": vhScenarioC12Loop,
	"C12.no-run-on-error.eval": vhScenarioC12,
	"C12.stops-at-first-error": vhScenarioC12,
	"C12.run-when-ok.eval": func(map[string]string) bool {
		var out bytes.Buffer
		i := New(Options{Stdout: &out, Stderr: &out})
		_, err := i.Eval("package main\nfunc init() { println(\"RAN\") }\nfunc main() {}")
		return err != nil || !strings.Contains(out.String(), "RAN")
	},
}

var vhRegistry = map[string]func(){"vh_C12_eval": vh_C12_eval, "vh_C12_execute": vh_C12_execute,
	"vh_C12_binary": vh_C12_binary, "vh_C12_unary": vh_C12_unary, "vh_C12_assign": vh_C12_assign, "vh_C12_binconst": vh_C12_binconst, "vh_C12_assignconst": vh_C12_assignconst, "vh_C12_cfg": vh_C12_cfg, "vh_C12_cfg_assert": vh_C12_cfg_assert}

var vhIntVars = map[string]*int{"vhMaxSteps": &vhMaxSteps, "vhRuleOp": &vhRuleOp, "vhConstKind": &vhConstKind, "vhConstLeft": &vhConstLeft, "vhConstBits": &vhConstBits}
