package interp

// Native meaning of the unbounded-integer / constant / reflect-type
// vocabulary (the engine intercepts these by name: vBig is an SMT Int).

import (
	"fmt"
	"go/constant"
	"math/big"
	"reflect"
)

type vBig struct{ b *big.Int }

func (x vBig) v() *big.Int {
	if x.b == nil {
		return new(big.Int)
	}
	return x.b
}

func vBigNondet(label string) vBig {
	s, _ := vnext(label)
	n, ok := new(big.Int).SetString(s, 10)
	if !ok {
		n = new(big.Int)
	}
	return vBig{n}
}
func vBigInt64(x int64) vBig   { return vBig{big.NewInt(x)} }
func vBigUint64(x uint64) vBig { return vBig{new(big.Int).SetUint64(x)} }
func vBigToUint64(a vBig) uint64 { return new(big.Int).And(a.v(), new(big.Int).SetUint64(^uint64(0))).Uint64() }
func vBigAdd(a, b vBig) vBig   { return vBig{new(big.Int).Add(a.v(), b.v())} }
func vBigSub(a, b vBig) vBig   { return vBig{new(big.Int).Sub(a.v(), b.v())} }
func vBigMul(a, b vBig) vBig   { return vBig{new(big.Int).Mul(a.v(), b.v())} }
func vBigNeg(a vBig) vBig      { return vBig{new(big.Int).Neg(a.v())} }
func vBigQuo(a, b vBig) vBig   { return vBig{new(big.Int).Quo(a.v(), b.v())} }
func vBigRem(a, b vBig) vBig   { return vBig{new(big.Int).Rem(a.v(), b.v())} }
func vBigLe(a, b vBig) bool    { return a.v().Cmp(b.v()) <= 0 }
func vBigLt(a, b vBig) bool    { return a.v().Cmp(b.v()) < 0 }
func vBigEq(a, b vBig) bool    { return a.v().Cmp(b.v()) == 0 }
func vBigPow2(n int) vBig      { return vBig{new(big.Int).Lsh(big.NewInt(1), uint(n))} }
func vBigWrap(a vBig, bits int, signed bool) vBig {
	m := new(big.Int).Lsh(big.NewInt(1), uint(bits))
	r := new(big.Int).Mod(a.v(), m)
	if signed && r.Bit(bits-1) == 1 {
		r.Sub(r, m)
	}
	return vBig{r}
}

func vConstOfBig(x vBig) constant.Value { return constant.Make(x.v()) }

func vBigOfConst(c constant.Value) vBig {
	n, ok := new(big.Int).SetString(constant.ToInt(c).ExactString(), 10)
	if !ok {
		panic("vBigOfConst: not an integer constant: " + c.ExactString())
	}
	return vBig{n}
}

func vConstKindIs(c constant.Value, k int) bool { return int(c.Kind()) == k }

func vConstFloatOpaque() constant.Value { return constant.MakeFloat64(0.5) }

var vKindTypes = map[reflect.Kind]reflect.Type{
	reflect.Bool: reflect.TypeOf(false), reflect.String: reflect.TypeOf(""),
	reflect.Int: reflect.TypeOf(int(0)), reflect.Int8: reflect.TypeOf(int8(0)), reflect.Int16: reflect.TypeOf(int16(0)),
	reflect.Int32: reflect.TypeOf(int32(0)), reflect.Int64: reflect.TypeOf(int64(0)),
	reflect.Uint: reflect.TypeOf(uint(0)), reflect.Uint8: reflect.TypeOf(uint8(0)), reflect.Uint16: reflect.TypeOf(uint16(0)),
	reflect.Uint32: reflect.TypeOf(uint32(0)), reflect.Uint64: reflect.TypeOf(uint64(0)), reflect.Uintptr: reflect.TypeOf(uintptr(0)),
	reflect.Float32: reflect.TypeOf(float32(0)), reflect.Float64: reflect.TypeOf(float64(0)),
	reflect.Complex64: reflect.TypeOf(complex64(0)), reflect.Complex128: reflect.TypeOf(complex128(0)),
}

func vTypeOfKind(k int) reflect.Type { return vKindTypes[reflect.Kind(k)] }

func vConstValType() reflect.Type { return constVal }

// vKindRange: bounds of an integer kind.
func vKindBits(k reflect.Kind) (bits int, signed bool) {
	switch k {
	case reflect.Int8:
		return 8, true
	case reflect.Int16:
		return 16, true
	case reflect.Int32:
		return 32, true
	case reflect.Int, reflect.Int64:
		return 64, true
	case reflect.Uint8:
		return 8, false
	case reflect.Uint16:
		return 16, false
	case reflect.Uint32:
		return 32, false
	}
	return 64, false
}

func vKindMin(k reflect.Kind) vBig {
	bits, signed := vKindBits(k)
	if !signed {
		return vBigInt64(0)
	}
	return vBigNeg(vBigPow2(bits - 1))
}

func vKindMax(k reflect.Kind) vBig {
	bits, signed := vKindBits(k)
	if signed {
		return vBigSub(vBigPow2(bits-1), vBigInt64(1))
	}
	return vBigSub(vBigPow2(bits), vBigInt64(1))
}

func vObserveInt(label string, v int64)     { fmt.Printf("VOBS %s=%d\n", label, v) }
func vObserveUint(label string, v uint64)   { fmt.Printf("VOBS %s=%d\n", label, v) }
func vObserveBool(label string, v bool)     { fmt.Printf("VOBS %s=%v\n", label, v) }
func vObserveString(label string, v string) { fmt.Printf("VOBS %s=%s\n", label, v) }
func vObserveBig(label string, v vBig)      { fmt.Printf("VOBS %s=%s\n", label, v.v().String()) }
