package PKG

// Harness vocabulary. The symbolic engine intercepts every function below by
// name; the bodies here are the *native* meaning, used when a solver model is
// replayed against the real build (go test -overlay).

import (
	"fmt"
	"math"
	"strconv"
	"strings"
)

var (
	vReplayVals = map[string][]string{} // label -> successive values (text)
	vReplayIdx  = map[string]int{}
	vFailures   []string
	vReached    []string
)

type vAssumeFailed struct{}

func vReset(vals map[string]string) {
	vReplayVals = map[string][]string{}
	vReplayIdx = map[string]int{}
	vFailures = nil
	vReached = nil
	for k, v := range vals {
		lab, n := k, 0
		if i := strings.LastIndex(k, "#"); i >= 0 {
			if m, err := strconv.Atoi(k[i+1:]); err == nil {
				lab, n = k[:i], m
			}
		}
		for len(vReplayVals[lab]) <= n {
			vReplayVals[lab] = append(vReplayVals[lab], "")
		}
		vReplayVals[lab][n] = v
	}
}

func vnext(label string) (string, bool) {
	i := vReplayIdx[label]
	vReplayIdx[label] = i + 1
	vs := vReplayVals[label]
	if i < len(vs) {
		return vs[i], true
	}
	return "", false
}

func vNondetString(label string) string { s, _ := vnext(label); return s }
func vNondetBool(label string) bool     { s, _ := vnext(label); return s == "true" }
func vnextInt(label string, bits int) int64 {
	s, ok := vnext(label)
	if !ok || s == "" {
		return 0
	}
	n, err := strconv.ParseInt(s, 10, bits)
	if err != nil {
		panic(fmt.Sprintf("replay: bad int %q for %s", s, label))
	}
	return n
}
func vnextUint(label string, bits int) uint64 {
	s, ok := vnext(label)
	if !ok || s == "" {
		return 0
	}
	n, err := strconv.ParseUint(s, 10, bits)
	if err != nil {
		panic(fmt.Sprintf("replay: bad uint %q for %s", s, label))
	}
	return n
}
func vNondetInt(label string) int       { return int(vnextInt(label, 64)) }
func vNondetInt64(label string) int64   { return vnextInt(label, 64) }
func vNondetInt32(label string) int32   { return int32(vnextInt(label, 32)) }
func vNondetInt16(label string) int16   { return int16(vnextInt(label, 16)) }
func vNondetInt8(label string) int8     { return int8(vnextInt(label, 8)) }
func vNondetUint(label string) uint     { return uint(vnextUint(label, 64)) }
func vNondetUint64(label string) uint64 { return vnextUint(label, 64) }
func vNondetUint32(label string) uint32 { return uint32(vnextUint(label, 32)) }
func vNondetUint16(label string) uint16 { return uint16(vnextUint(label, 16)) }
func vNondetUint8(label string) uint8   { return uint8(vnextUint(label, 8)) }

func vAssume(c bool) {
	if !c {
		panic(vAssumeFailed{})
	}
}

func vAssert(id string, c bool) {
	if !c {
		vFailures = append(vFailures, id)
	}
}

// vKnown names a region of the input space in which the next assertion is
// known to fail on the pinned tree (see known_findings.json).
func vKnown(name string, c bool) {}

func vReach(id string) { vReached = append(vReached, id) }

func vImplies(a, b bool) bool { return !a || b }
func vAnd(a, b bool) bool     { return a && b }
func vOr(a, b bool) bool      { return a || b }
func vNot(a bool) bool        { return !a }
func vIteInt(c bool, a, b int) int {
	if c {
		return a
	}
	return b
}
func vIteString(c bool, a, b string) string {
	if c {
		return a
	}
	return b
}
func vIteBool(c bool, a, b bool) bool {
	if c {
		return a
	}
	return b
}

func vInCharset(s, chars string) bool {
	for i := 0; i < len(s); i++ {
		if !strings.Contains(chars, s[i:i+1]) {
			return false
		}
	}
	return true
}

func vContains(s, sub string) bool  { return strings.Contains(s, sub) }
func vHasPrefix(s, p string) bool   { return strings.HasPrefix(s, p) }
func vHasSuffix(s, p string) bool   { return strings.HasSuffix(s, p) }
func vConcretizeInt(x, lo, hi int) int { return x }

// vRunHarness runs one harness natively under a replay assignment and
// reports the assertion ids that failed.
func vRunHarness(h func(), vals map[string]string) (failures []string, assumeFailed bool, panicked interface{}) {
	vReset(vals)
	func() {
		defer func() {
			if r := recover(); r != nil {
				if _, ok := r.(vAssumeFailed); ok {
					assumeFailed = true
					return
				}
				panicked = r
			}
		}()
		h()
	}()
	return vFailures, assumeFailed, panicked
}

func vNondetWord(label, charset string, maxlen int) string { s, _ := vnext(label); return s }

// vSymbolic is true under the symbolic engine and false in native replays.
func vSymbolic() bool { return false }

func vNondetWordN(label, charset string, minlen, maxlen int) string { s, _ := vnext(label); return s }

// vPred is an uninterpreted predicate over strings; in a replay its
// interpretation comes from the counterexample (absent points are false).
func vPred(name, arg string) bool {
	vs := vReplayVals["pred:"+name+":"+arg]
	return len(vs) > 0 && vs[0] == "true"
}

// Trace inspection exists only under the engine; natively nothing is recorded.
func vEventCount(prefix string) int                      { return 0 }
func vEventArgIs(tag string, k int, v interface{}) bool  { return true }

func vWatchCaptured(f interface{}) {}
func vWatchEnd()                   {}

// vRunGoroutines: under the engine, runs the goroutines created by go
// statements so far; natively goroutines run by themselves.
func vRunGoroutines() {}

// vDebug prints the engine's view of a value when tracing; nothing natively.
func vDebug(label string, v interface{}) {}

func vNondetFloat64(label string) float64 {
	s, ok := vnext(label)
	if !ok || s == "" {
		return 0
	}
	// the engine prints floating-point models as their IEEE-754 bit pattern (decimal)
	if bits, err := strconv.ParseUint(s, 10, 64); err == nil {
		return math.Float64frombits(bits)
	}
	f, _ := strconv.ParseFloat(s, 64)
	return f
}
