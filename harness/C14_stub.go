package stdlib

// C14 needs no harness functions: the driver builds symbolic receivers and
// arguments itself. These registries satisfy the shared replay test.

var vhRegistry = map[string]func(){}

var vhIntVars = map[string]*int{}

var vhScenarios = map[string]func(map[string]string) bool{}
