package interp

// C19: running under the debugger does not change what is executed.
//
// Real code executed from SSA: both loops of runCfg, isExecNode,
// originalExecNode, (*node).Walk, (*Debugger).exec/enterCall/exitCall,
// (*node).shouldBreak. The program is an opaque exec graph: three exec
// closures with distinct code identities, any successor relation.

import (
	"context"
	"go/token"
)

var (
	vhChoices []int // successor choices of the plain run, replayed under the debugger
	vhReplay  bool
	vhNodes   []*node
	vhEvents  []DebugEventReason // reasons delivered to the events callback
	vhBreakSeen []bool           // per step of the debugger run: a DebugBreak event was delivered since the previous step
	vhBreakPending bool
	vhStepNode []int // id of the exec closure run at each step
	vhPanicAt  = -1 // the step (0-based) that panics (-1: none); set by the driver
	vhMode     = 0  // 0 run, 1 step-into, 2 step-over, 3 step-out pending; set by the driver
	vhFStep    = 0  // depth at which the pending step request was issued
)

func vhStep(id int, f *frame) bltn {
	vhTrace = append(vhTrace, id)
	if vhReplay {
		vhBreakSeen = append(vhBreakSeen, vhBreakPending)
		vhBreakPending = false
	}
	step := vhSteps
	vhSteps++
	if step == vhPanicAt {
		panic("step panics")
	}
	if vhSteps >= vhMaxSteps {
		return nil
	}
	var j int
	if vhReplay {
		j = vhChoices[step]
	} else {
		j = vConcretizeInt(vNondetInt("succ"), 0, 2)
		vhChoices = append(vhChoices, j)
	}
	// successors of n1 and n2 are chosen when the node is first visited
	if nd := vhNodes[id]; nd.tnext == nil {
		nd.tnext = vhNodes[vConcretizeInt(vNondetInt("tnext"), 0, 2)]
		nd.fnext = vhNodes[vConcretizeInt(vNondetInt("fnext"), 0, 2)]
	}
	// a step continues with its true successor, its false successor, or ends
	switch j {
	case 0:
		return vhNodes[id].tnext.exec
	case 1:
		return vhNodes[id].fnext.exec
	}
	return nil
}

// vhMkB: one function literal => one code pointer for all closures made here,
// like two CFG nodes produced by the same generator case.
//go:noinline
func vhMkB(id int) bltn { return func(f *frame) bltn { return vhStep(id, f) } }

// The CFG: n0 branches to n1 (true) or n2 (false); n1 and n2 continue to any
// node. With share, n1 and n2 have the same code pointer (same generator).
func vhTree(i *Interpreter) *node {
	share := vNondetBool("samegen")
	vhShare = share
	parent := &node{interp: i, index: 100}
	n0 := &node{interp: i, anc: parent, index: 1, pos: token.Pos(10), exec: func(f *frame) bltn { return vhStep(0, f) }}
	n1 := &node{interp: i, anc: parent, index: 2, pos: token.Pos(20), exec: vhMkB(1)}
	n2 := &node{interp: i, anc: parent, index: 3, pos: token.Pos(30)}
	if share {
		n2.exec = vhMkB(2)
	} else {
		n2.exec = func(f *frame) bltn { return vhStep(2, f) }
	}
	parent.child = []*node{n0, n1, n2}
	vhNodes = []*node{n0, n1, n2}
	n0.tnext, n0.fnext = n1, n2
	return n0
}

var vhShare bool

var (
	vhTerminate bool // what the session does at the current stop: terminate (true) or resume
	vhG         *debugRoutine
)

// vhSelectChoice tells the engine's select model which case of the select in
// (*Debugger).exec is ready: 0 = g.resume, 1 = dbg.context.Done().
func vhSelectChoice(n int) int {
	if vhTerminate {
		return 1
	}
	return 0
}

func vhDebugger(i *Interpreter) *Debugger {
	dbg := &Debugger{interp: i}
	if vSymbolic() {
		dbg.context, dbg.cancel = context.Background(), func() {}
	} else {
		dbg.context, dbg.cancel = context.WithCancel(context.Background())
	}
	dbg.events = func(e *DebugEvent) {
		vhEvents = append(vhEvents, e.reason)
		if e.reason == DebugBreak {
			vhBreakPending = true
		}
		// the client either resumes or terminates the session
		vhTerminate = vNondetBool("terminate")
		if !vSymbolic() {
			if vhTerminate {
				dbg.cancel()
			} else {
				go func() { vhG.resume <- struct{}{} }()
			}
		}
	}
	return dbg
}

func vh_C19_loop() {
	vhResetClock()
	vhStopAt = -1
	vhChoices, vhReplay, vhEvents, vhBreakSeen, vhBreakPending = nil, false, nil, nil, false
	i := vhNewInterp()
	n := vhTree(i)
	fn := &node{interp: i, kind: funcLit}
	// a step of the program may panic (the caller recovers)
	run := func(f *frame) {
		defer func() { recover() }()
		runCfg(n, f, fn, nil)
	}
	// plain run
	f1 := newFrame(i.frame, 0, i.runid())
	run(f1)
	plain := vhTrace
	// same program under the debugger, continuing freely
	vhTrace, vhSteps, vhReplay = nil, 0, true
	i.debugger = vhDebugger(i)
	// the session is in any mode: running, or a pending step-into/over/out
	// request issued at any depth
	g := &debugRoutine{mode: debugRun, resume: make(chan struct{})}
	switch vhMode {
	case 1:
		g.mode = DebugStepInto
	case 2:
		g.mode = DebugStepOver
	case 3:
		g.mode = DebugStepOut
	}
	g.fStep = vhFStep
	running := g.mode == debugRun
	vhG = g
	// symbolic breakpoints on the three nodes
	nbreak := 0
	for _, nd := range vhNodes {
		if vNondetBool("break") {
			nd.debug = &nodeDebugData{breakOnLine: true}
			nbreak++
		}
	}
	f2 := newFrame(i.frame, 0, i.runid())
	f2.debug = &frameDebugData{g: g}
	vReach("C19.loop-equiv")
	run(f2)
	dbgTrace := vhTrace
	// the debugger run is a prefix of the plain run (it may only end early,
	// when the session is terminated while stopped at a breakpoint) ...
	ok := len(dbgTrace) <= len(plain)
	for k := 0; ok && k < len(dbgTrace); k++ {
		if dbgTrace[k] != plain[k] {
			ok = false
		}
	}
	vAssert("C19.loop-equiv.prefix", ok)
	// ... and identical when there is no breakpoint at all
	if nbreak == 0 && running {
		vAssert("C19.loop-equiv", len(dbgTrace) == len(plain))
		vAssert("C19.no-spurious-event", len(vhEvents) == 0)
	}
	// every executed step of a node carrying a breakpoint was preceded by a DebugBreak event
	for k := 0; k < len(dbgTrace); k++ {
		if vhNodes[dbgTrace[k]].debug != nil {
			vKnown("C19.same-generator-successors", vhShare)
			vAssert("C19.break-reported", vhBreakSeen[k])
		} else {
			vKnown("C19.same-generator-successors", vhShare)
			vAssert("C19.no-spurious-break", !vhBreakSeen[k])
		}
	}
	vAssert("C19.depth-balanced", g.fDepth == 0)
}

var vhRegistry = map[string]func(){"vh_C19_loop": vh_C19_loop, "vh_C19_setbp": vh_C19_setbp}

var vhIntVars = map[string]*int{"vhMaxSteps": &vhMaxSteps, "vhNExec": &vhNExec, "vhPanicAt": &vhPanicAt, "vhMode": &vhMode, "vhFStep": &vhFStep}

var vhScenarios = map[string]func(map[string]string) bool{}

// ---- SetBreakpoints: a line breakpoint attaches to an executed step ----------
//
// A tree of three nodes on lines 1..2; each may be a structural node (action
// aNop) or have no exec closure. Through the real SetBreakpoints: a request for
// line L is valid exactly when some node of that line is an executed step, and
// the breakpoint flag goes to the first such node in walk order and to no
// structural or exec-less node (on such nodes a breakpoint is either never
// reported or reported at a moment when nothing of that line runs).

func vmFsetPosition(fs *token.FileSet, p token.Pos) token.Position {
	return token.Position{Line: int(p)}
}

func vh_C19_setbp() {
	vhResetClock()
	i := vhNewInterp()
	dbg := &Debugger{interp: i}
	if !vSymbolic() {
		// natively positions go through a real file set: Pos p lies on line p
		i.fset = token.NewFileSet()
		i.fset.AddFile("x.go", 1, 8).SetLines([]int{0, 1, 2, 3, 4, 5, 6, 7})
	}
	root := &node{interp: i, kind: fileStmt}
	var isStep [3]bool
	var line [3]int
	for k := 0; k < 3; k++ {
		line[k] = vConcretizeInt(vNondetInt("line"), 1, 2)
		nop, noExec := vNondetBool("structural"), vNondetBool("noExec")
		c := &node{interp: i, kind: exprStmt, anc: root, pos: token.Pos(line[k]), action: aAssign}
		if nop {
			c.action = aNop
		}
		if !noExec {
			c.exec = func(*frame) bltn { return nil }
		} else {
			c.gen = func(*node) {} // a generator that installs no closure
		}
		isStep[k] = !nop && !noExec
		root.child = append(root.child, c)
	}
	want := vConcretizeInt(vNondetInt("request"), 1, 2)
	vReach("C19.setbp")
	res := dbg.SetBreakpoints(func(d *Debugger, cb func(*node)) { cb(root) }, LineBreakpoint(want))
	first := -1
	for k := 0; k < 3; k++ {
		if first < 0 && isStep[k] && line[k] == want {
			first = k
		}
	}
	vAssert("C19.setbp.one-result", len(res) == 1)
	valid := len(res) == 1 && res[0].Valid
	vAssert("C19.setbp.valid-iff-executable-line", valid == (first >= 0))
	ok := true
	for k := 0; k < 3; k++ {
		c := root.child[k]
		set := c.debug != nil && c.debug.breakOnLine
		if set != (k == first) {
			ok = false
		}
	}
	vAssert("C19.setbp.attached-to-first-step-of-line", ok)
}
