package interp

// The body of importSrc (shared by C12, C15, C16): the real importSrc runs on
// a two-file package of a harness filesystem; the compile stages parse, ast,
// gta, gtaRetry and cfg are models that fail on the solver's command and hand
// out opaque exec graphs for the files' package-level code and init functions.
//
//  C16.once / C16.cycle      a loaded path is not read again; a path being
//                            loaded reports an import cycle
//  C16.importSrc.no-run-on-error  any stage error => error returned, nothing executed (serves C12)
//  C16.importSrc.run-order   package-level code of every file, then the init
//                            functions in source order, each exactly once (serves C15)

import (
	"bytes"
	"errors"
	"strings"
	"testing/fstest"
	"go/ast"
	"io/fs"
)

var (
	vhImpFail   [5]bool // parse, ast, gta, gtaRetry, cfg
	vhImpFiles  = []string{"a.go", "b.go"}
	vhImpReads  int // ReadDir + ReadFile calls
	vhImpOrder  []int // what ran: 100+k package-level code of file k, 200+k init function k
	vhImpFileNo int
)

type vhDirEnt struct{ name string }

func (e vhDirEnt) Name() string               { return e.name }
func (e vhDirEnt) IsDir() bool                { return false }
func (e vhDirEnt) Type() fs.FileMode          { return 0 }
func (e vhDirEnt) Info() (fs.FileInfo, error) { return nil, nil }

type vhImpFS struct{}

func (vhImpFS) Open(name string) (fs.File, error) { return nil, vhNotExist }
func (vhImpFS) ReadDir(name string) ([]fs.DirEntry, error) {
	vhImpReads++
	var r []fs.DirEntry
	for _, f := range vhImpFiles {
		r = append(r, vhDirEnt{f})
	}
	return r, nil
}
func (vhImpFS) ReadFile(name string) ([]byte, error) {
	vhImpReads++
	return []byte("package p\n"), nil
}

func vmImpParse(i *Interpreter, src, name string, inc bool) (ast.Node, error) {
	if vhImpFail[0] {
		return nil, errors.New("parse error")
	}
	return &ast.File{}, nil
}

func vmImpAst(i *Interpreter, n ast.Node) (string, *node, error) {
	if vhImpFail[1] {
		return "", nil, errors.New("ast error")
	}
	k := vhImpFileNo
	vhImpFileNo++
	root := &node{interp: i, kind: fileStmt}
	root.start = root
	root.exec = func(*frame) bltn { vhImpOrder = append(vhImpOrder, 100+k); return nil }
	return "p", root, nil
}

func vmImpGta(i *Interpreter, root *node, rpath, importPath, pkgName string) ([]*node, error) {
	vhGtaRoots = append(vhGtaRoots, rpath)
	if vhSubStop {
		return nil, errors.New("stop here")
	}
	if vhImpFail[2] {
		return nil, errors.New("gta error")
	}
	if i.scopes[importPath] == nil {
		i.scopes[importPath] = &scope{sym: map[string]*symbol{}}
	}
	return nil, nil
}

func vmImpGtaRetry(i *Interpreter, nodes []*node, importPath, pkgName string) error {
	if vhImpFail[3] {
		return errors.New("gta retry error")
	}
	return nil
}

var vhImpCfgNo int

func vmImpCfg(i *Interpreter, root *node, sc *scope, importPath, pkgName string) ([]*node, error) {
	if vhImpFail[4] {
		return nil, errors.New("cfg error")
	}
	k := vhImpCfgNo
	vhImpCfgNo++
	in := &node{interp: i}
	in.start = in
	in.exec = func(*frame) bltn { vhImpOrder = append(vhImpOrder, 200+k); return nil }
	return []*node{in}, nil
}

func vhImpInterp() *Interpreter {
	i := vhNewInterp()
	i.opt.filesystem = vhImpFS{}
	i.opt.context.GOPATH = vhGoPath
	i.srcPkg = map[string]map[string]*symbol{}
	i.pkgNames = map[string]string{}
	i.rdir = map[string]bool{}
	i.name = "m/main.go"
	vhImpReads, vhImpOrder, vhImpFileNo, vhImpCfgNo = 0, nil, 0, 0
	return i
}

func vh_import_body() {
	vhResetClock()
	vhStopAt = -1
	i := vhImpInterp()
	for k := range vhImpFail {
		vhImpFail[k] = vNondetBool("fail")
	}
	vReach("import.body")
	name, err := i.importSrc(mainID, "./p", NoTest)
	anyFail := vhImpFail[0] || vhImpFail[1] || vhImpFail[2] || vhImpFail[3] || vhImpFail[4]
	if anyFail {
		vAssert("C16.importSrc.no-run-on-error", err != nil && len(vhImpOrder) == 0)
		return
	}
	vAssert("C16.importSrc.run-when-ok", err == nil && name == "p")
	// package-level code of both files, then both init functions, in source order, once each
	want := []int{100, 101, 200, 201}
	ok := len(vhImpOrder) == len(want)
	for k := 0; ok && k < len(want); k++ {
		if vhImpOrder[k] != want[k] {
			ok = false
		}
	}
	vAssert("C16.importSrc.run-order", ok)
	// a second import of the same path: nothing is read or executed again
	reads, ran := vhImpReads, len(vhImpOrder)
	name2, err2 := i.importSrc(mainID, "./p", NoTest)
	vAssert("C16.once", err2 == nil && name2 == "p" && vhImpReads == reads && len(vhImpOrder) == ran)
}

// a path whose load is in progress (it imports itself, directly or not)
func vh_import_cycle() {
	vhResetClock()
	vhStopAt = -1
	i := vhImpInterp()
	for k := range vhImpFail {
		vhImpFail[k] = false
	}
	i.rdir["./p"] = true // ./p is being loaded further up the import chain
	vReach("import.cycle")
	_, err := i.importSrc(mainID, "./p", NoTest)
	vAssert("C16.cycle", err != nil && vhImpReads == 0 && len(vhImpOrder) == 0)
}

// ---- native scenarios through EvalPath on an in-memory filesystem ----------

func vhEvalFS(files map[string]string) (string, error) {
	mfs := fstest.MapFS{}
	for name, src := range files {
		mfs[name] = &fstest.MapFile{Data: []byte(src)}
	}
	var out bytes.Buffer
	ip := New(Options{Stdout: &out, Stderr: &out, SourcecodeFilesystem: mfs, GoPath: "gp"})
	_, err := ip.EvalPath("main.go")
	return out.String(), err
}

func vhScenarioImportOnce(map[string]string) bool {
	out, err := vhEvalFS(map[string]string{
		"main.go": "package main\nimport (\n\"./p\"\n\"./q\"\n)\nfunc main() { println(p.V + q.V) }\n",
		"p/p.go":  "package p\nvar V = 1\nfunc init() { println(\"init p\") }\n",
		"q/q.go":  "package q\nimport \"../p\"\nvar V = p.V\nfunc init() { println(\"init q\") }\n",
	})
	return err != nil || strings.Count(out, "init p") != 1
}

func vhScenarioImportCycle(map[string]string) bool {
	_, err := vhEvalFS(map[string]string{
		"main.go": "package main\nimport \"./p\"\nfunc main() { println(p.V) }\n",
		"p/p.go":  "package p\nimport \"../q\"\nvar V = q.V\n",
		"q/q.go":  "package q\nimport \"../p\"\nvar V = p.V\n",
	})
	return err == nil
}

func vhScenarioImportOrder(map[string]string) bool {
	out, err := vhEvalFS(map[string]string{
		"main.go": "package main\nimport \"./p\"\nfunc main() { println(\"main\", p.A+p.B) }\n",
		"p/a.go":  "package p\nfunc f(s string) int { println(s); return 1 }\nvar A = f(\"var a\")\nfunc init() { println(\"init a\") }\n",
		"p/b.go":  "package p\nvar B = f(\"var b\")\nfunc init() { println(\"init b\") }\n",
	})
	return err != nil || out != "var a\nvar b\ninit a\ninit b\nmain 2\n"
}

func vhScenarioImportError(map[string]string) bool {
	out, err := vhEvalFS(map[string]string{
		"main.go": "package main\nimport \"./p\"\nfunc main() { println(\"RAN\", p.A) }\n",
		"p/a.go":  "package p\nfunc f(s string) int { println(\"RAN\"); return 1 }\nvar A = f(\"a\")\nfunc init() { println(\"RAN\") }\n",
		"p/b.go":  "package p\nvar B string = 1\n",
	})
	return err == nil || strings.Contains(out, "RAN")
}

var vhImportScenarios = map[string]func(map[string]string) bool{
	"C16.once": vhScenarioImportOnce, "C16.cycle": vhScenarioImportCycle,
	"C16.importSrc.run-order": vhScenarioImportOrder, "C16.importSrc.no-run-on-error": vhScenarioImportError,
}

// ---- the root handed to nested imports -----------------------------------
//
// importSrc resolves the package directory, then compiles its files with a
// root (the rPath argument of gta) against which the package's own imports will
// be resolved. Go's rule: that root is the package's own directory (relative
// to GOPATH/src), wherever it was found - below a vendor directory, in
// GOPATH/src, or as a sub-package named by its full path.
// Real code: importSrc down to gta, pkgDir, previousRoot, effectivePkg over an
// uninterpreted directory tree; parse/ast/gta are models (gta records its root).

type vhSubFS struct{ vhFS }

var vhSubReadDir []string

func (vhSubFS) ReadDir(name string) ([]fs.DirEntry, error) {
	vhSubReadDir = append(vhSubReadDir, name)
	return []fs.DirEntry{vhDirEnt{"a.go"}}, nil
}
func (vhSubFS) ReadFile(name string) ([]byte, error) { return []byte("package p\n"), nil }

var (
	vhGtaRoots []string // the roots handed to gta
	vhSubStop  bool     // the nested-root obligation stops the import at gta
)

var vhSubShape = 0 // 0: unrelated path in GOPATH/src, 1: in the importer's vendor directory, 2: a sub-package named by its full path

func vh_import_subroot() {
	vhResetClock()
	i := vhNewInterp()
	i.opt.filesystem = vhSubFS{}
	i.opt.context.GOPATH = vhGoPath
	i.srcPkg = map[string]map[string]*symbol{}
	i.pkgNames = map[string]string{}
	i.rdir = map[string]bool{}
	i.name = "m/main.go"
	w1, w2 := vNondetWordN("root", vhSegChars, 1, 5), vNondetWordN("root", vhSegChars, 1, 5)
	v1 := vNondetWordN("imp", vhSegChars, 1, 5)
	root := w1 + "/" + w2
	src := vhGoPath + "/src/"
	imp, dir := v1, ""
	// the tree: exactly the directory where Go finds the package exists among the candidates
	switch vhSubShape {
	case 0:
		dir = src + imp
		vAssume(!vPred("isdir", src+root+"/vendor/"+imp) && !vPred("isdir", src+w1+"/vendor/"+imp) && !vPred("isdir", src+"vendor/"+imp))
		vAssume(!vPred("isdir", src+root+"/"+imp) && !vPred("isdir", src+w1+"/"+imp)) // (not the known importer-subdir candidates)
		vAssume(!vPred("isdir", src+root+"/vendor") && !vPred("isdir", src+w1+"/vendor"))
	case 1:
		dir = src + root + "/vendor/" + imp
	default:
		imp = root + "/" + v1
		dir = src + imp
		vAssume(!vPred("isdir", src+root+"/vendor/"+imp))
	}
	vAssume(vPred("isdir", dir))
	vhSubReadDir, vhGtaRoots, vhSubStop = nil, nil, true
	vReach("C16.subroot")
	i.importSrc(root, imp, NoTest)
	vhSubStop = false
	vAssert("C16.importSrc.reads-resolved-dir", len(vhSubReadDir) == 1 && vhSubReadDir[0] == dir)
	vAssert("C16.importSrc.nested-root-is-package-dir", len(vhGtaRoots) == 1 && src+vhGtaRoots[0] == dir)
}
