package interp

// C15: package-level variables initialise in dependency order.
//
// Real code executed from SSA: genGlobalVarDecl, equalNodes, wireChild,
// (*node).cfgErrorf. getVarDependencies is replaced by a symbolic dependency
// relation for the ordering obligation (and executed for real in the
// dependency-collection obligations below).
// Oracle: the Go specification's rule "repeatedly select the earliest
// variable in declaration order that is ready for initialisation".

import (
	"bytes"
	"fmt"
	"strings"
)

const vhMaxVars = 5

var (
	vhNVars = 4
	vhDep   [vhMaxVars][vhMaxVars]bool // vhDep[i][j]: variable i refers to variable j
	vhVars  []*node
)

func vmGetVarDependencies(nod *node, sc *scope) (deps []*node) {
	i := nod.findex
	for j := 0; j < vhNVars; j++ {
		if vhDep[i][j] {
			deps = append(deps, vhVars[j])
		}
	}
	return deps
}

// vhSpecOrder is the reference: Go spec, "Package initialization".
func vhSpecOrder(n int, dep *[vhMaxVars][vhMaxVars]bool) (order []int, cycle bool) {
	done := make([]bool, n)
	for len(order) < n {
		sel := -1
		for i := 0; i < n && sel < 0; i++ {
			if done[i] {
				continue
			}
			ready := true
			for j := 0; j < n; j++ {
				if dep[i][j] && !done[j] {
					ready = false
				}
			}
			if ready {
				sel = i
			}
		}
		if sel < 0 {
			return order, true
		}
		done[sel] = true
		order = append(order, sel)
	}
	return order, false
}

var (
	vhDepFix     = -1 // >= 0: value of the first vhDepFixBits relation bits (work splitting by the driver)
	vhDepFixBits = 0
)

func vh_C15_order() {
	vhResetClock()
	vhStopAt = -1
	i := vhNewInterp()
	n := vhNVars
	vhVars = nil
	for k := 0; k < n; k++ {
		vhVars = append(vhVars, &node{interp: i, kind: defineStmt, findex: k})
	}
	bit := 0
	for a := 0; a < n; a++ {
		for b := 0; b < n; b++ {
			vhDep[a][b] = false
			if a != b {
				vhDep[a][b] = vNondetBool("dep")
				if vhDepFix >= 0 && bit < vhDepFixBits {
					// the driver splits the relation space: this obligation covers one value of the first bits
					vAssume(vhDep[a][b] == ((vhDepFix>>bit)&1 == 1))
				}
				bit++
			}
		}
	}
	vReach("C15.order")
	varNode, err := genGlobalVarDecl(vhVars, nil)
	want, cycle := vhSpecOrder(n, &vhDep)
	if cycle {
		vAssert("C15.cycle-reported", err != nil)
		return
	}
	vAssert("C15.no-spurious-cycle", err == nil && varNode != nil)
	if err != nil || varNode == nil {
		return
	}
	ok := len(varNode.child) == n
	for k := 0; ok && k < n; k++ {
		if varNode.child[k].findex != want[k] {
			ok = false
		}
	}
	vAssert("C15.order", ok)
}

// ---- dependency collection (real getVarDependencies) --------------------
//
// "var a = <expr>" where <expr> reaches the global X (b or c) directly, through
// one function body, or through two. Under the engine the AST is built by hand
// in the shape ast.go/gta.go/cfg.go produce (validated natively against the
// real tree, TestVerifValidateC15); natively the real front end builds it.

func vhDepsSource(depth int, x string) string {
	src := "package main\nvar b = 1\nvar c = 2\n"
	switch depth {
	case 0:
		src = "package main\nvar a = " + x + "\nvar b = 1\nvar c = 2\n"
	case 1:
		src = "package main\nvar a = f()\nvar b = 1\nvar c = 2\nfunc f() int { return " + x + " }\n"
	case 2:
		src = "package main\nvar a = f()\nvar b = 1\nvar c = 2\nfunc f() int { return g() }\nfunc g() int { return " + x + " }\n"
	case 4:
		// two variables reach X through the same function
		src = "package main\nvar a = f()\nvar d = f() + 1\nvar b = 1\nvar c = 2\nfunc f() int { return " + x + " }\n"
	case 5:
		// a method called on a composite literal
		src = "package main\ntype T struct{}\nvar a = T{}.m()\nvar b = 1\nvar c = 2\nfunc (T) m() int { return " + x + " }\n"
	case 6:
		// through a function, then a method
		src = "package main\ntype T struct{}\nvar a = f()\nvar b = 1\nvar c = 2\nfunc f() int { return T{}.m() }\nfunc (T) m() int { return " + x + " }\n"
	case 7:
		// a method expression
		src = "package main\ntype T struct{}\nvar a = T.m(T{})\nvar b = 1\nvar c = 2\nfunc (T) m() int { return " + x + " }\n"
	case 8:
		// a call through an interface is NOT a reference to the method (Go spec, package initialization)
		src = "package main\ntype T struct{}\ntype I interface{ m() int }\nvar a = I(T{}).m()\nvar b = 1\nvar c = 2\nfunc (T) m() int { return " + x + " }\n"
	case 9:
		// the operand of a field selector
		src = "package main\ntype S struct{ v int }\nvar a = " + x + ".v\nvar b = S{1}\nvar c = S{2}\n"
	case 10:
		// inside a function literal called at once
		src = "package main\nvar a = func() int { return " + x + " }()\nvar b = 1\nvar c = 2\n"
	case 3:
		// a local variable shadows the other global: no dependency on it
		src = "package main\nvar a = f()\nvar b = 1\nvar c = 2\nfunc f() int { " + vhOther(x) + " := 5; return " + x + " + " + vhOther(x) + " }\n"
	}
	return src + "func main() {}\n"
}

func vhOther(x string) string {
	if x == "b" {
		return "c"
	}
	return "b"
}

func vhAdopt(parent *node, kids ...*node) *node {
	parent.child = kids
	for _, k := range kids {
		k.anc = parent
	}
	return parent
}

func vhFuncDecl(i *Interpreter, name string, body ...*node) *node {
	blk := vhAdopt(&node{interp: i, kind: blockStmt}, body...)
	return vhAdopt(&node{interp: i, kind: funcDecl},
		&node{interp: i, kind: fieldList}, &node{interp: i, kind: identExpr, ident: name},
		vhAdopt(&node{interp: i, kind: funcType}, &node{interp: i, kind: fieldList}, &node{interp: i, kind: fieldList}), blk)
}

// vhDepsHand builds the tree by hand; returns the variable node of a, the
// package scope, the node of X and the node of the other global.
func vhDepsHand(i *Interpreter, depth int, x string) (a *node, sc *scope, want, other *node) {
	sc = &scope{sym: map[string]*symbol{}, global: true}
	mkVar := func(name string) (*node, *symbol) {
		n := &node{interp: i, kind: defineStmt}
		sym := &symbol{kind: varSym, global: true, node: n}
		sc.sym[name] = sym
		return n, sym
	}
	an, _ := mkVar("a")
	bn, bsym := mkVar("b")
	cn, csym := mkVar("c")
	vhAdopt(bn, &node{interp: i, kind: identExpr, ident: "b"}, &node{interp: i, kind: basicLit})
	vhAdopt(cn, &node{interp: i, kind: identExpr, ident: "c"}, &node{interp: i, kind: basicLit})
	xsym, osym := bsym, csym
	want, other = bn, cn
	if x == "c" {
		xsym, osym = csym, bsym
		want, other = cn, bn
	}
	ref := func(name string, sym *symbol) *node { return &node{interp: i, kind: identExpr, ident: name, sym: sym} }
	aid := ref("a", nil) // a newly defined identifier carries no symbol
	tsym := &symbol{kind: typeSym}
	lit := func() *node { return vhAdopt(&node{interp: i, kind: compositeLitExpr}, ref("T", tsym)) }
	mdecl := func() *node {
		m := vhFuncDecl(i, "m", vhAdopt(&node{interp: i, kind: returnStmt}, ref(x, xsym)))
		vhAdopt(m.child[0], vhAdopt(&node{interp: i, kind: fieldExpr}, ref("T", tsym)))
		return m
	}
	msel := func(recv *node) *node {
		return vhAdopt(&node{interp: i, kind: selectorExpr, action: aGetMethod, val: mdecl()}, recv, &node{interp: i, kind: identExpr, ident: "m"})
	}
	switch depth {
	case 0:
		vhAdopt(an, aid, ref(x, xsym))
	case 5:
		sc.sym["T"] = tsym
		vhAdopt(an, aid, vhAdopt(&node{interp: i, kind: callExpr}, msel(lit())))
	case 6:
		sc.sym["T"] = tsym
		fsym := &symbol{kind: funcSym}
		fsym.node = vhFuncDecl(i, "f", vhAdopt(&node{interp: i, kind: returnStmt}, vhAdopt(&node{interp: i, kind: callExpr}, msel(lit()))))
		sc.sym["f"] = fsym
		vhAdopt(an, aid, vhAdopt(&node{interp: i, kind: callExpr}, ref("f", fsym)))
	case 7:
		sc.sym["T"] = tsym
		vhAdopt(an, aid, vhAdopt(&node{interp: i, kind: callExpr}, msel(ref("T", tsym)), lit()))
	case 9:
		sel := vhAdopt(&node{interp: i, kind: selectorExpr, action: aGetIndex}, ref(x, xsym), &node{interp: i, kind: identExpr, ident: "v"})
		vhAdopt(an, aid, sel)
	case 10:
		lit := vhAdopt(&node{interp: i, kind: funcLit}, &node{interp: i, kind: undefNode},
			vhAdopt(&node{interp: i, kind: funcType}, &node{interp: i, kind: fieldList}, &node{interp: i, kind: fieldList}),
			vhAdopt(&node{interp: i, kind: blockStmt}, vhAdopt(&node{interp: i, kind: returnStmt}, ref(x, xsym))))
		vhAdopt(an, aid, vhAdopt(&node{interp: i, kind: callExpr}, lit))
	case 8:
		sc.sym["T"] = tsym
		isym := &symbol{kind: typeSym}
		sc.sym["I"] = isym
		conv := vhAdopt(&node{interp: i, kind: callExpr}, ref("I", isym), lit())
		sel := vhAdopt(&node{interp: i, kind: selectorExpr, action: aMethod}, conv, &node{interp: i, kind: identExpr, ident: "m"})
		vhAdopt(an, aid, vhAdopt(&node{interp: i, kind: callExpr}, sel))
	default:
		fsym := &symbol{kind: funcSym}
		vhAdopt(an, aid, vhAdopt(&node{interp: i, kind: callExpr}, ref("f", fsym)))
		switch depth {
		case 1, 4:
			fsym.node = vhFuncDecl(i, "f", vhAdopt(&node{interp: i, kind: returnStmt}, ref(x, xsym)))
			if depth == 4 {
				dn, _ := mkVar("d")
				vhAdopt(dn, ref("d", nil), vhAdopt(&node{interp: i, kind: binaryExpr}, vhAdopt(&node{interp: i, kind: callExpr}, ref("f", fsym)), &node{interp: i, kind: basicLit}))
			}
		case 2:
			gsym := &symbol{kind: funcSym}
			gsym.node = vhFuncDecl(i, "g", vhAdopt(&node{interp: i, kind: returnStmt}, ref(x, xsym)))
			fsym.node = vhFuncDecl(i, "f", vhAdopt(&node{interp: i, kind: returnStmt}, vhAdopt(&node{interp: i, kind: callExpr}, ref("g", gsym))))
			sc.sym["g"] = gsym
		case 3:
			lsym := &symbol{kind: varSym} // the local that shadows the other global
			def := vhAdopt(&node{interp: i, kind: defineStmt}, ref(vhOther(x), nil), &node{interp: i, kind: basicLit})
			ret := vhAdopt(&node{interp: i, kind: returnStmt}, vhAdopt(&node{interp: i, kind: binaryExpr}, ref(x, xsym), ref(vhOther(x), lsym)))
			fsym.node = vhFuncDecl(i, "f", def, ret)
		}
		sc.sym["f"] = fsym
	}
	_ = osym
	return an, sc, want, other
}

// vhDepsReal obtains the same from the real front end.
func vhDepsReal(depth int, x string) (a *node, sc *scope, want, other *node) {
	ip := New(Options{})
	prog, err := ip.Compile(vhDepsSource(depth, x))
	if err != nil {
		panic(err)
	}
	sc = ip.scopes[prog.pkgName]
	return sc.sym["a"].node, sc, sc.sym[x].node, sc.sym[vhOther(x)].node
}

var vhDepthMax = 10

func vh_C15_deps() {
	vhResetClock()
	vhStopAt = -1
	depth := vConcretizeInt(vNondetInt("depth"), 0, vhDepthMax)
	x := "b"
	if vNondetBool("xIsC") {
		x = "c"
	}
	var a, want, other *node
	var sc *scope
	if vSymbolic() {
		a, sc, want, other = vhDepsHand(vhNewInterp(), depth, x)
	} else {
		a, sc, want, other = vhDepsReal(depth, x)
	}
	vReach("C15.deps")
	// The collector is reached through genGlobalVarDecl (its caller): with a
	// declared first, the order tells which dependencies were found.
	bN, cN := want, other
	if x == "c" {
		bN, cN = other, want
	}
	vars := []*node{a, bN, cN}
	var dep [vhMaxVars][vhMaxVars]bool
	xi := 1
	if x == "c" {
		xi = 2
	}
	dep[0][xi] = true // a refers to X, directly or through functions, and to nothing else
	if depth == 8 {
		dep[0][xi] = false // the interface call carries no dependency: declaration order
	}
	if depth == 4 {
		// a, d, b, c: d refers to X through the same function
		vars = []*node{a, sc.sym["d"].node, bN, cN}
		dep[0][xi] = false
		dep[0][xi+1], dep[1][xi+1] = true, true
	}
	nv := len(vars)
	varNode, err := genGlobalVarDecl(vars, sc)
	wantOrder, _ := vhSpecOrder(nv, &dep)
	ok := err == nil && varNode != nil && len(varNode.child) == nv
	for k := 0; ok && k < nv; k++ {
		if varNode.child[k] != vars[wantOrder[k]] {
			ok = false
		}
	}
	vAssert("C15.deps.order-reflects-references", ok)
}

// ---- native scenario: the same dependency relation as a real program ----

func vhScenarioC15(model map[string]string) bool {
	n := vhNVars
	var dep [vhMaxVars][vhMaxVars]bool
	k := 0
	for a := 0; a < n; a++ {
		for b := 0; b < n; b++ {
			if a == b {
				continue
			}
			key := "dep"
			if k > 0 {
				key = fmt.Sprintf("dep#%d", k)
			}
			dep[a][b] = model[key] == "true"
			k++
		}
	}
	want, cycle := vhSpecOrder(n, &dep)
	var sb strings.Builder
	sb.WriteString("package main\nvar trace string\nfunc f(name string, deps ...int) int { trace += name + \",\"; return 1 }\n")
	for a := 0; a < n; a++ {
		fmt.Fprintf(&sb, "var v%d = f(\"%d\"", a, a)
		for b := 0; b < n; b++ {
			if dep[a][b] {
				fmt.Fprintf(&sb, ", v%d", b)
			}
		}
		sb.WriteString(")\n")
	}
	sb.WriteString("func main() { print(trace) }\n")
	var out bytes.Buffer
	ip := New(Options{Stdout: &out, Stderr: &out})
	_, err := ip.Eval(sb.String())
	if cycle {
		return err == nil
	}
	if err != nil {
		return true
	}
	wantS := ""
	for _, w := range want {
		wantS += fmt.Sprintf("%d,", w)
	}
	return out.String() != wantS
}

var vhScenarios = map[string]func(map[string]string) bool{
	"C15.order": vhScenarioC15, "C15.cycle-reported": vhScenarioC15, "C15.no-spurious-cycle": vhScenarioC15,
}

var vhRegistry = map[string]func(){"vh_C15_order": vh_C15_order, "vh_C15_deps": vh_C15_deps}

var vhIntVars = map[string]*int{"vhNVars": &vhNVars, "vhDepthMax": &vhDepthMax, "vhDepFix": &vhDepFix, "vhDepFixBits": &vhDepFixBits}
