package interp

// Observation harness: concrete vectors pushed through the real reflect and
// go/constant natively and through the engine's models of them; every
// observed value must agree (translator / summary validation).

import (
	"go/constant"
	"go/token"
	"math"
	"reflect"
)

var vvInts = []int64{0, 1, -1, 2, 127, 128, -128, -129, 255, 256, 32767, 32768, -32768, -32769, 65535, 65536,
	1<<31 - 1, 1 << 31, -1 << 31, 1<<32 - 1, 1 << 32, 1 << 62, math.MaxInt64, math.MinInt64, 42, -42, 1000000007}

var vvIntKinds = []reflect.Kind{reflect.Int, reflect.Int8, reflect.Int16, reflect.Int32, reflect.Int64,
	reflect.Uint, reflect.Uint8, reflect.Uint16, reflect.Uint32, reflect.Uint64, reflect.Uintptr}

func vvSigned(k reflect.Kind) bool { return k >= reflect.Int && k <= reflect.Int64 }

func vvObs(label string, v reflect.Value) {
	if vvSigned(v.Kind()) {
		vObserveInt(label, v.Int())
	} else {
		vObserveUint(label, v.Uint())
	}
}

func vv_models() {
	// reflect: truncation on Set*, widening on Int/Uint, Convert between integer kinds
	for _, k := range vvIntKinds {
		t := vTypeOfKind(int(k))
		for _, x := range vvInts {
			rv := reflect.New(t).Elem()
			if vvSigned(k) {
				rv.SetInt(x)
			} else {
				rv.SetUint(uint64(x))
			}
			vvObs("set", rv)
			vObserveInt("kind", int64(rv.Kind()))
			vObserveBool("valid", rv.IsValid())
			for _, k2 := range vvIntKinds {
				vvObs("conv", rv.Convert(vTypeOfKind(int(k2))))
			}
			// Set from another value of the same kind; interface round trip
			rv2 := reflect.New(t).Elem()
			rv2.Set(rv)
			vvObs("copy", rv2)
			vvObs("valueof", reflect.ValueOf(rv.Interface()))
		}
	}
	vObserveBool("zero-valid", reflect.Value{}.IsValid())
	sv := reflect.New(vTypeOfKind(int(reflect.String))).Elem()
	sv.SetString("héllo"[:1] + "ello")
	vObserveString("str", sv.String())
	bv := reflect.New(vTypeOfKind(int(reflect.Bool))).Elem()
	bv.SetBool(true)
	vObserveBool("bool", bv.Bool())
	// go/constant on integers
	ops := []token.Token{token.ADD, token.SUB, token.MUL, token.QUO_ASSIGN, token.REM}
	for _, x := range vvInts {
		cx := constant.MakeInt64(x)
		i, ok := constant.Int64Val(cx)
		vObserveInt("i64", i)
		vObserveBool("i64ok", ok)
		_, uok := constant.Uint64Val(cx)
		vObserveBool("u64ok", uok)
		vObserveInt("bitlen", int64(constant.BitLen(cx)))
		vObserveInt("sign", int64(constant.Sign(cx)))
		vObserveBig("neg", vBigOfConst(constant.UnaryOp(token.SUB, cx, 0)))
		vObserveBig("shl3", vBigOfConst(constant.Shift(cx, token.SHL, 3)))
		vObserveBig("shr3", vBigOfConst(constant.Shift(cx, token.SHR, 3)))
		vObserveBool("repr8", representableConst(cx, vTypeOfKind(int(reflect.Int8))))
		vObserveBool("repru8", representableConst(cx, vTypeOfKind(int(reflect.Uint8))))
		for _, y := range []int64{1, -1, 3, -7, 255, 1 << 40, math.MaxInt64, math.MinInt64} {
			cy := constant.MakeInt64(y)
			for _, op := range ops {
				vObserveBig("bin", vBigOfConst(constant.BinaryOp(cx, op, cy)))
			}
			vObserveBool("lt", constant.Compare(cx, token.LSS, cy))
			vObserveBool("eq", constant.Compare(cx, token.EQL, cy))
			// beyond 64 bits
			big := constant.BinaryOp(constant.BinaryOp(cx, token.MUL, cy), token.MUL, cy)
			_, bok := constant.Int64Val(big)
			vObserveBool("bigok", bok)
			vObserveBig("big", vBigOfConst(big))
		}
	}
}
