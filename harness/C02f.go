package interp

// C02, floating-point and string operands.
//
// float64 operators are computed by yaegi at float64 (same format);
// float32 operators are computed at float64 and rounded to float32 by the
// destination slot (SetFloat): equality with Go's float32 arithmetic is a
// double-rounding theorem that the solver has to establish for + and -
// (full width); * and / at full width are not decided by the installed
// solvers and are not registered.

import (
	"math"
	"reflect"
)

type vhFloat interface{ ~float32 | ~float64 }

func vhGoF[T vhFloat](op int, x, y T) (r T, b bool) {
	switch op {
	case opAdd:
		return x + y, false
	case opSub:
		return x - y, false
	case opMul:
		return x * y, false
	case opQuo:
		return x / y, false
	case opEq:
		return 0, x == y
	case opNe:
		return 0, x != y
	case opLt:
		return 0, x < y
	case opLe:
		return 0, x <= y
	case opGt:
		return 0, x > y
	case opGe:
		return 0, x >= y
	case opNeg:
		return -x, false
	case opPos:
		return +x, false
	case opInc:
		return x + 1, false
	case opDec:
		return x - 1, false
	}
	return 0, false
}

func vhCatF(k reflect.Kind) tcat {
	if k == reflect.Float32 {
		return float32T
	}
	return float64T
}

// same IEEE value: equal and with the same sign of zero, or both NaN
func vhSameFloat(a, b float64) bool {
	if math.IsNaN(a) || math.IsNaN(b) {
		return math.IsNaN(a) && math.IsNaN(b)
	}
	return a == b && math.Signbit(a) == math.Signbit(b)
}

func vh_C02_float() {
	k := reflect.Kind(vhKind)
	op := vhOp % 100
	assign := vhOp >= 100
	isCmp := op >= opEq && op <= opGe
	unary := op >= opNeg
	i := vhNewInterp()
	t := &itype{cat: vhCatF(k), rtype: vTypeOfKind(int(k))}
	resT := t
	if isCmp {
		resT = vhItype(reflect.Bool)
	}
	mk := func(x float64) reflect.Value {
		v := reflect.New(t.rtype).Elem()
		v.SetFloat(x) // rounds to the kind
		return v
	}
	ca, cb := mk(vNondetFloat64("a")), mk(vNondetFloat64("b"))
	a, b := ca.Float(), cb.Float()
	parent := &node{interp: i, kind: exprStmt}
	c0 := &node{interp: i, typ: t, findex: 0, kind: identExpr}
	c1 := &node{interp: i, typ: t, findex: 1, kind: identExpr}
	n := &node{interp: i, anc: parent, typ: resT, findex: 2, kind: binaryExpr, child: []*node{c0, c1}}
	c0.anc, c1.anc = n, n
	if unary {
		n.child = []*node{c0}
		n.kind = unaryExpr
	}
	if assign || op == opInc || op == opDec {
		n.typ = t
		n.kind = assignStmt
	}
	if isCmp && vhBranch == 1 {
		n.tnext = &node{interp: i, exec: func(*frame) bltn { vhTook = 1; return nil }}
		n.fnext = &node{interp: i, exec: func(*frame) bltn { vhTook = 2; return nil }}
	}
	vhTook = 0
	f := newFrame(i.frame, 3, i.runid())
	f.data[0], f.data[1] = ca, cb
	f.data[2] = reflect.New(resT.rtype).Elem()
	switch vhForm {
	case 1:
		if k == reflect.Float32 {
			c0.rval = reflect.ValueOf(float32(a))
		} else {
			c0.rval = reflect.ValueOf(a)
		}
	case 2:
		if k == reflect.Float32 {
			c1.rval = reflect.ValueOf(float32(b))
		} else {
			c1.rval = reflect.ValueOf(b)
		}
	}
	vReach("C02.float")
	vhGens[vhOp](n)
	vAssert("C02.total", n.exec != nil)
	if n.exec == nil {
		return
	}
	if next := n.exec(f); next != nil {
		next(f)
	}
	var want float64
	var wb bool
	if k == reflect.Float32 {
		r, c := vhGoF(op, float32(a), float32(b))
		want, wb = float64(r), c
	} else {
		want, wb = vhGoF(op, a, b)
	}
	res := f.data[2]
	if assign || op == opInc || op == opDec {
		res = f.data[0]
	}
	if isCmp {
		vAssert("C02.value", res.Bool() == wb)
		if vhBranch == 1 {
			vAssert("C02.branch", (vhTook == 1) == wb && vhTook != 0)
		}
		return
	}
	vAssert("C02.value", vhSameFloat(res.Float(), want))
}

// strings: + (concatenation), += and the six comparisons
func vh_C02_string() {
	op := vhOp % 100
	assign := vhOp >= 100
	isCmp := op >= opEq && op <= opGe
	i := vhNewInterp()
	t := &itype{cat: stringT, rtype: reflect.TypeOf("")}
	resT := t
	if isCmp {
		resT = vhItype(reflect.Bool)
	}
	a, b := vNondetString("a"), vNondetString("b")
	vAssume(len(a) <= 6)
	vAssume(len(b) <= 6)
	parent := &node{interp: i, kind: exprStmt}
	c0 := &node{interp: i, typ: t, findex: 0, kind: identExpr}
	c1 := &node{interp: i, typ: t, findex: 1, kind: identExpr}
	n := &node{interp: i, anc: parent, typ: resT, findex: 2, kind: binaryExpr, child: []*node{c0, c1}}
	c0.anc, c1.anc = n, n
	if assign {
		n.typ = t
		n.kind = assignStmt
	}
	if isCmp && vhBranch == 1 {
		n.tnext = &node{interp: i, exec: func(*frame) bltn { vhTook = 1; return nil }}
		n.fnext = &node{interp: i, exec: func(*frame) bltn { vhTook = 2; return nil }}
	}
	vhTook = 0
	f := newFrame(i.frame, 3, i.runid())
	f.data[0], f.data[1] = reflect.New(t.rtype).Elem(), reflect.New(t.rtype).Elem()
	f.data[0].SetString(a)
	f.data[1].SetString(b)
	f.data[2] = reflect.New(resT.rtype).Elem()
	switch vhForm {
	case 1:
		c0.rval = reflect.ValueOf(a)
	case 2:
		c1.rval = reflect.ValueOf(b)
	}
	vReach("C02.string")
	vhGens[vhOp](n)
	vAssert("C02.total", n.exec != nil)
	if n.exec == nil {
		return
	}
	if next := n.exec(f); next != nil {
		next(f)
	}
	res := f.data[2]
	if assign {
		res = f.data[0]
	}
	var wb bool
	switch op {
	case opAdd:
		vAssert("C02.value", res.String() == a+b)
		return
	case opEq:
		wb = a == b
	case opNe:
		wb = a != b
	case opLt:
		wb = a < b
	case opLe:
		wb = a <= b
	case opGt:
		wb = a > b
	case opGe:
		wb = a >= b
	}
	vAssert("C02.value", res.Bool() == wb)
	if vhBranch == 1 {
		vAssert("C02.branch", (vhTook == 1) == wb && vhTook != 0)
	}
}
