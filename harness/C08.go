package interp

// C08 (narrow): variables captured when a node's exec closure is generated are
// shared by every goroutine executing that statement and must be read-only
// at run time.
//
// Real code executed from SSA: _select (generator and exec closure),
// clauseChanDir, genValue, valueGenerator, getExec; send/recv closures.
// Two activations A and B (own frames, own channels) execute the same
// closure; B runs entirely at A's preemption point just before
// reflect.Select. Obligations: the closure writes nothing reachable from its
// captured variables (else two goroutines race on it), and what A hands to
// reflect.Select is A's own channels (no cross-talk).

import (
	"reflect"
	"sync"
	"sync/atomic"
	"time"
)

func vhChanFrame(i *Interpreter) (*frame, []reflect.Value) {
	f := newFrame(i.frame, 2, i.runid())
	chans := []reflect.Value{reflect.ValueOf(make(chan int, 1)), reflect.ValueOf(make(chan int, 1))}
	f.data[0], f.data[1] = chans[0], chans[1]
	f.done = reflect.SelectCase{Dir: reflect.SelectRecv, Chan: reflect.ValueOf(i.done)}
	return f, chans
}

func vh_C08_select() {
	vhResetClock()
	i := vhNewInterp()
	vhBlockOp = 5
	vhDoneChan = reflect.ValueOf(i.done)
	n := vhSelect2(i)
	_select(n)
	fA, chA := vhChanFrame(i)
	fB, _ := vhChanFrame(i)
	if !vSymbolic() {
		// native replay: two goroutines with private channels execute the statement
		// concurrently (run under the race detector)
		var wg sync.WaitGroup
		// a cross-talking select may wait on the other goroutine's channels: a
		// watchdog closes the interpreter's done channel so that nothing blocks forever
		stop := time.AfterFunc(3*time.Second, func() { close(i.done) })
		defer stop.Stop()
		for g := 0; g < 2; g++ {
			wg.Add(1)
			go func() {
				defer wg.Done()
				f, ch := vhChanFrame(i)
				for k := 0; k < 300; k++ {
					if ch[0].Len() == 0 {
						ch[0].Send(reflect.ValueOf(k))
					}
					if n.exec(f) == nil && ch[0].Len() != 0 {
						return // cancelled by the watchdog
					}
				}
			}()
		}
		wg.Wait()
		return
	}
	vhSelSeen = nil
	vhSelHook = func() { n.exec(fB) }
	vReach("C08.select")
	vWatchCaptured(n.exec)
	n.exec(fA)
	vWatchEnd()
	vAssert("C08.readonly._select", vEventCount("capwrite:") == 0)
	ok := len(vhSelSeen) >= 2 && vhSelSeen[0] == chA[0] && vhSelSeen[1] == chA[1]
	vAssert("C08.crosstalk._select", ok)
}

// Every channel statement (with and without a context) and the call statement:
// two activations of the same closure, B at A's preemption point (the
// reflect.Select of the cancellable forms); nothing reachable from the
// captured variables may be written.
var vhCancelMode = 1

func vh_C08_chanop() {
	vhResetClock()
	vhStopAt = -1
	i := vhNewInterp()
	i.cancelChan = vhCancelMode == 1
	vhSelCalls, vhSelDoneAt0, vhSelChosen = 0, true, -1
	n, fA := vhBlockNode(i)
	_, fB := vhBlockNode(i) // a second frame with its own channels (its node is not used)
	if !vSymbolic() {
		// native replay under the race detector: two goroutines execute the statement
		// on their own frames and channels; a peer goroutine per frame keeps the
		// channel operation completing (with pauses, so that the blocking path is taken)
		stop := time.AfterFunc(3*time.Second, func() { close(i.done) })
		defer stop.Stop()
		var wg sync.WaitGroup
		for _, f := range []*frame{fA, fB} {
			f := f
			quit := make(chan struct{})
			peer := func(ch reflect.Value) {
				for k := 0; ; k++ {
					select {
					case <-quit:
						return
					default:
					}
					if vhBlockOp == 3 {
						ch.TryRecv()
					} else {
						ch.TrySend(reflect.ValueOf(true))
					}
					if k%3 == 0 {
						time.Sleep(20 * time.Microsecond)
					}
				}
			}
			go peer(f.data[0])
			if vhBlockOp == 5 {
				go peer(f.data[1])
			}
			wg.Add(1)
			go func() {
				defer wg.Done()
				defer close(quit)
				for k := 0; k < 400; k++ {
					if n.exec(f) == nil && vhBlockOp != 4 {
						select {
						case <-i.done:
							return
						default:
						}
					}
				}
			}()
		}
		wg.Wait()
		return
	}
	vhSelHook = func() { n.exec(fB) }
	vReach("C08.chanop")
	vWatchCaptured(n.exec)
	n.exec(fA)
	vWatchEnd()
	vAssert("C08.readonly.chanop", vEventCount("capwrite:") == 0)
}

// f(args...) executed by two goroutines: the call closure keeps nothing
// between executions (variadic and plain callees).
var vhVariadic = 0

func vh_C08_call() {
	vhResetClock()
	vhStopAt = -1
	i := vhNewInterp()
	intT := &itype{cat: intT, rtype: reflect.TypeOf(0)}
	sliceT := &itype{cat: sliceT, val: intT, rtype: reflect.TypeOf([]int{})}
	body := &node{interp: i}
	body.start = body
	body.exec = func(f *frame) bltn { vhSteps++; return nil }
	blk := &node{interp: i, start: body}
	argT := intT
	def := &node{interp: i, kind: funcDecl, typ: &itype{cat: funcT, arg: []*itype{argT}, rtype: reflect.TypeOf(func(int) {})}, types: []reflect.Type{intT.rtype}}
	if vhVariadic == 1 {
		def.typ = &itype{cat: funcT, arg: []*itype{{cat: variadicT, val: intT, rtype: sliceT.rtype}}, rtype: reflect.TypeOf(func(...int) {})}
		def.types = []reflect.Type{sliceT.rtype}
	}
	def.child = []*node{{interp: i}, {interp: i, ident: "p"}, {interp: i}, blk}
	def.val = def
	c0 := &node{interp: i, kind: identExpr, findex: notInFrame, val: def, typ: def.typ}
	x := &node{interp: i, kind: identExpr, findex: 0, typ: intT}
	stmt := &node{interp: i, kind: exprStmt}
	n := &node{interp: i, kind: callExpr, anc: stmt, child: []*node{c0, x}, typ: def.typ}
	c0.anc, x.anc = n, n
	call(n)
	mk := func(v int64) *frame {
		f := newFrame(i.frame, 1, i.runid())
		f.data[0] = reflect.New(intT.rtype).Elem()
		f.data[0].SetInt(v)
		return f
	}
	if !vSymbolic() {
		var wg sync.WaitGroup
		for g := 0; g < 4; g++ {
			wg.Add(1)
			go func(g int) {
				defer wg.Done()
				f := mk(int64(g))
				for k := 0; k < 500; k++ {
					n.exec(f)
				}
			}(g)
		}
		wg.Wait()
		return
	}
	fA := mk(vNondetInt64("a"))
	vReach("C08.call")
	vWatchCaptured(n.exec)
	n.exec(fA)
	vWatchEnd()
	vAssert("C08.readonly.call", vEventCount("capwrite:") == 0)
}

// A call of a compiled (binary) function, "r := hostFn(x)" as a statement run
// by several activations: the closure callBin installs must keep its argument
// and result buffers per execution.
var vhBinForm = 0 // 0: call statement, result discarded; 1: the result is assigned

func vh_C08_callbin() {
	vhResetClock()
	vhStopAt = -1
	i := vhNewInterp()
	i.mapTypes = map[reflect.Value][]reflect.Type{}
	intT := &itype{cat: intT, rtype: reflect.TypeOf(0)}
	host := func(v int) int { return v + 1 }
	hv := reflect.ValueOf(host)
	ft := &itype{cat: valueT, rtype: hv.Type()}
	c0 := &node{interp: i, kind: identExpr, findex: notInFrame, rval: hv, typ: ft}
	x := &node{interp: i, kind: identExpr, findex: 0, typ: intT}
	n := &node{interp: i, kind: callExpr, child: []*node{c0, x}, typ: &itype{cat: valueT, rtype: intT.rtype}, findex: 1}
	c0.anc, x.anc = n, n
	if vhBinForm == 1 {
		dst := &node{interp: i, kind: identExpr, findex: 2, typ: intT}
		as := &node{interp: i, kind: assignStmt, action: aAssign, nleft: 1, nright: 1, child: []*node{dst, n}}
		dst.anc, n.anc = as, as
	} else {
		n.anc = &node{interp: i, kind: exprStmt, child: []*node{n}}
	}
	callBin(n)
	mk := func(v int64) *frame {
		f := newFrame(i.frame, 3, i.runid())
		for k := 0; k < 3; k++ {
			f.data[k] = reflect.New(intT.rtype).Elem()
		}
		f.data[0].SetInt(v)
		return f
	}
	if !vSymbolic() {
		var wg sync.WaitGroup
		bad := int32(0)
		for g := 0; g < 4; g++ {
			wg.Add(1)
			go func(g int) {
				defer wg.Done()
				f := mk(int64(g))
				for k := 0; k < 2000; k++ {
					n.exec(f)
					if f.data[1].Int() != int64(g)+1 {
						atomic.StoreInt32(&bad, 1)
					}
				}
			}(g)
		}
		wg.Wait()
		vAssert("C08.crosstalk.callbin", atomic.LoadInt32(&bad) == 0)
		return
	}
	a := vNondetInt64("a")
	vAssume(a > -1000 && a < 1000)
	fA := mk(a)
	vReach("C08.callbin")
	vWatchCaptured(n.exec)
	n.exec(fA)
	vWatchEnd()
	vAssert("C08.readonly.callbin", vEventCount("capwrite:") == 0)
	vAssert("C08.crosstalk.callbin", fA.data[1].Int() == a+1)
}

// "go report(x); x = b": the goroutine receives the value x had at the go
// statement, whenever it is scheduled. Real code: the call generator with a go
// statement as parent, for a function value held in a variable (compiled
// function) and for an interpreted function. Under the engine the goroutine is
// run after the later assignment (vRunGoroutines); natively it runs by itself.
var vhGoForm = 0

func vh_C08_go() {
	vhResetClock()
	vhStopAt = -1
	i := vhNewInterp()
	intT := &itype{cat: intT, rtype: reflect.TypeOf(0)}
	var seen []int64
	var wg sync.WaitGroup
	record := func(v int64) {
		seen = append(seen, v)
		if !vSymbolic() {
			wg.Done()
		}
	}
	var c0 *node
	var hostV reflect.Value
	if vhGoForm == 0 {
		host := func(v int) { record(int64(v)) }
		hostV = reflect.ValueOf(host)
		c0 = &node{interp: i, kind: identExpr, findex: 1, typ: &itype{cat: funcT, arg: []*itype{intT}, rtype: hostV.Type()}}
	} else {
		body := &node{interp: i}
		body.start = body
		body.exec = func(f *frame) bltn { record(f.data[0].Int()); return nil }
		blk := &node{interp: i, start: body}
		def := &node{interp: i, kind: funcDecl, typ: &itype{cat: funcT, arg: []*itype{intT}, rtype: reflect.TypeOf(func(int) {})}, types: []reflect.Type{intT.rtype}}
		def.child = []*node{{interp: i}, {interp: i, ident: "p"}, {interp: i}, blk}
		def.val = def
		c0 = &node{interp: i, kind: identExpr, findex: notInFrame, val: def, typ: def.typ}
	}
	x := &node{interp: i, kind: identExpr, findex: 0, typ: intT}
	stmt := &node{interp: i, kind: goStmt}
	n := &node{interp: i, kind: callExpr, anc: stmt, child: []*node{c0, x}, typ: c0.typ}
	stmt.child = []*node{n}
	c0.anc, x.anc = n, n
	call(n)
	f := newFrame(i.frame, 2, i.runid())
	f.data[0] = reflect.New(intT.rtype).Elem()
	if vhGoForm == 0 {
		f.data[1] = hostV
	}
	a, b := vNondetInt64("atGo"), vNondetInt64("later")
	f.data[0].SetInt(a)
	vReach("C08.go")
	if !vSymbolic() {
		wg.Add(1)
	}
	n.exec(f)           // go report(x)
	f.data[0].SetInt(b) // x = b
	vRunGoroutines()
	if !vSymbolic() {
		wg.Wait()
	}
	vAssert("C08.go.argument-fixed-at-go-statement", len(seen) == 1 && seen[0] == a)
}

var vhScenarios = map[string]func(map[string]string) bool{}

var vhRegistry = map[string]func(){"vh_C08_go": vh_C08_go, "vh_C08_callbin": vh_C08_callbin, "vh_C08_select": vh_C08_select, "vh_C08_chanop": vh_C08_chanop, "vh_C08_call": vh_C08_call}

var vhIntVars = map[string]*int{"vhMaxSteps": &vhMaxSteps, "vhBlockOp": &vhBlockOp, "vhCancelMode": &vhCancelMode, "vhVariadic": &vhVariadic, "vhBinForm": &vhBinForm, "vhGoForm": &vhGoForm}
