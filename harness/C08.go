package interp

// C08 (narrow): variables captured when a node's exec closure is generated are
// shared by every goroutine executing that statement and must be read-only
// at run time.
//
// Real code executed from SSA: _select (generator and exec closure),
// clauseChanDir, genValue, valueGenerator, getExec; send/recv closures.
// Two activations A and B (own frames, own channels) execute the same
// closure; B runs entirely at A's preemption point just before
// reflect.Select. Obligations: the closure writes nothing reachable from its
// captured variables (else two goroutines race on it), and what A hands to
// reflect.Select is A's own channels (no cross-talk).

import (
	"reflect"
	"sync"
	"time"
)

var (
	vhSelNested bool
	vhSelB      func()
	vhSelSeenA  []reflect.Value // channels A handed to reflect.Select
)

// vhSelectModel stands for reflect.Select: before A's select proceeds, B runs.
func vhSelectModel(cases []reflect.SelectCase) (int, reflect.Value, bool) {
	if !vhSelNested {
		vhSelNested = true
		if vhSelB != nil {
			vhSelB()
		}
		vhSelSeenA = nil
		for _, c := range cases {
			vhSelSeenA = append(vhSelSeenA, c.Chan)
		}
	}
	return 0, reflect.Value{}, false
}

// select { case <-c0: ; case <-c1: } with the channels in frame slots 0 and 1
func vhSelectNode(i *Interpreter) *node {
	n := &node{interp: i, kind: selectStmt}
	for k := 0; k < 2; k++ {
		ch := &node{interp: i, kind: identExpr, findex: k, typ: &itype{cat: chanT}}
		rcv := &node{interp: i, kind: unaryExpr, action: aRecv, child: []*node{ch}}
		ch.anc = rcv
		st := &node{interp: i, kind: exprStmt, child: []*node{rcv}}
		rcv.anc = st
		cl := &node{interp: i, kind: commClause, child: []*node{st}, anc: n}
		st.anc = cl
		n.child = append(n.child, cl)
	}
	return n
}

func vhChanFrame(i *Interpreter) (*frame, []reflect.Value) {
	f := newFrame(i.frame, 2, i.runid())
	chans := []reflect.Value{reflect.ValueOf(make(chan int, 1)), reflect.ValueOf(make(chan int, 1))}
	f.data[0], f.data[1] = chans[0], chans[1]
	f.done = reflect.SelectCase{Dir: reflect.SelectRecv, Chan: reflect.ValueOf(i.done)}
	return f, chans
}

func vh_C08_select() {
	vhResetClock()
	i := vhNewInterp()
	n := vhSelectNode(i)
	_select(n)
	fA, chA := vhChanFrame(i)
	fB, _ := vhChanFrame(i)
	if !vSymbolic() {
		// native replay: two goroutines with private channels execute the statement
		// concurrently (run under the race detector)
		var wg sync.WaitGroup
		// a cross-talking select may wait on the other goroutine's channels: a
		// watchdog closes the interpreter's done channel so that nothing blocks forever
		stop := time.AfterFunc(3*time.Second, func() { close(i.done) })
		defer stop.Stop()
		for g := 0; g < 2; g++ {
			wg.Add(1)
			go func() {
				defer wg.Done()
				f, ch := vhChanFrame(i)
				for k := 0; k < 300; k++ {
					if ch[0].Len() == 0 {
						ch[0].Send(reflect.ValueOf(k))
					}
					if n.exec(f) == nil && ch[0].Len() != 0 {
						return // cancelled by the watchdog
					}
				}
			}()
		}
		wg.Wait()
		return
	}
	vhSelNested, vhSelSeenA = false, nil
	vhSelB = func() { n.exec(fB) }
	vReach("C08.select")
	vWatchCaptured(n.exec)
	n.exec(fA)
	vWatchEnd()
	vAssert("C08.readonly._select", vEventCount("capwrite:") == 0)
	ok := len(vhSelSeenA) >= 2 && vhSelSeenA[0] == chA[0] && vhSelSeenA[1] == chA[1]
	vAssert("C08.crosstalk._select", ok)
}

var vhScenarios = map[string]func(map[string]string) bool{}

var vhRegistry = map[string]func(){"vh_C08_select": vh_C08_select}

var vhIntVars = map[string]*int{"vhMaxSteps": &vhMaxSteps}
