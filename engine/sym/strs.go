package sym

import (
	"fmt"
	"math/big"
	"strings"
)

// String operations are kept *flat*: instead of nesting str.substr/str.indexof
// terms (which the string solvers handle badly), every slice or split result is
// a fresh string constant tied to its source by a word equation. Facts learnt
// on the current path are cached so that the same question is not asked twice.

type decompRec struct {
	h, t *Term
	sep  string
}

// Lin is a linear form over opaque integer atoms, used to recognise
// index arithmetic such as s[i+1:] where i = len(h).
type Lin struct {
	C int64
	M map[string]int64
}

func linOf(t *Term) *Lin {
	if t.Lin != nil {
		return t.Lin
	}
	if t.Const && t.CI != nil && t.CI.IsInt64() {
		return &Lin{C: t.CI.Int64()}
	}
	return &Lin{M: map[string]int64{t.S: 1}}
}

func linAdd(a, b *Lin, sign int64) *Lin {
	r := &Lin{C: a.C + sign*b.C, M: map[string]int64{}}
	for k, v := range a.M {
		r.M[k] = v
	}
	for k, v := range b.M {
		r.M[k] += sign * v
		if r.M[k] == 0 {
			delete(r.M, k)
		}
	}
	return r
}

func linEq(a, b *Lin) bool {
	if a.C != b.C || len(a.M) != len(b.M) {
		return false
	}
	for k, v := range a.M {
		if b.M[k] != v {
			return false
		}
	}
	return true
}

func (st *State) cacheKey(kind string, parts ...string) string {
	return kind + "|" + strings.Join(parts, "|")
}

// strLen is the state-aware length: decomposed strings get the sum of their parts.
func (st *State) strLen(s *Term) *Term {
	if s.Const {
		return IntT64(int64(len(s.CS)))
	}
	if len(s.Parts) > 1 {
		var sum *Term = IntT64(0)
		for _, p := range s.Parts {
			sum = IntAdd(sum, st.strLen(p))
		}
		return sum
	}
	if d := st.decomp[s.S]; d != nil {
		return IntAdd(IntAdd(st.strLen(d.h), IntT64(int64(len(d.sep)))), st.strLen(d.t))
	}
	if d := st.sufDecomp[s.S]; d != nil {
		return IntAdd(st.strLen(d.h), IntT64(int64(len(d.sep))))
	}
	if d := st.preDecomp[s.S]; d != nil {
		return IntAdd(IntT64(int64(len(d.sep))), st.strLen(d.t))
	}
	return StrLen(s)
}

func (st *State) freshStr(hint string) *Term {
	return st.FreshTerm(hint, SString, 0)
}

// inherit copies what is known about the alphabet and length of src to a
// string that is a piece of it.
func (st *State) inherit(piece, src *Term) {
	cs, ok := "", true
	ml := 0
	for _, p := range strParts(src) {
		if p.Const {
			cs += p.CS
			ml += len(p.CS)
			continue
		}
		c, k := st.charset[p.S]
		if !k {
			ok = false
			break
		}
		cs += c
		m, k2 := st.maxlen[p.S]
		if !k2 {
			m = 1 << 20
		}
		ml += m
	}
	if ok {
		st.charset[piece.S] = cs
		st.maxlen[piece.S] = ml
	}
}

// hasSuffix decides (forking if needed) whether s ends with the constant suf
// and records the decomposition s = b ++ suf.
func (st *State) hasSuffix(s, suf *Term) bool {
	if s.Const && suf.Const {
		return strings.HasSuffix(s.CS, suf.CS)
	}
	if !suf.Const {
		// syntactic tail: the parts of suf are the last parts of s
		sp, fp := strParts(s), strParts(suf)
		if len(fp) <= len(sp) {
			same := true
			for i := range fp {
				if sp[len(sp)-len(fp)+i].S != fp[i].S {
					same = false
				}
			}
			if same {
				return true
			}
		}
		return st.Branch(StrSuffixOf(suf, s))
	}
	if d := st.sufDecomp[s.S]; d != nil && strings.HasSuffix(d.sep, suf.CS) {
		return true
	}
	if ok, rem, structural := st.suffixParts(strParts(s), suf.CS); structural {
		if ok {
			st.sufDecomp[s.S] = &decompRec{h: concatParts(rem), sep: suf.CS}
		}
		return ok
	}
	if !st.Branch(StrSuffixOf(suf, s)) {
		return false
	}
	if st.sufDecomp[s.S] == nil {
		b := st.freshStr("pre")
		st.inherit(b, s)
		st.assertTerm(Eq(s, StrConcat(b, suf)))
		st.sufDecomp[s.S] = &decompRec{h: b, sep: suf.CS}
	}
	return true
}

func (st *State) hasPrefix(s, pre *Term) bool {
	if s.Const && pre.Const {
		return strings.HasPrefix(s.CS, pre.CS)
	}
	if !pre.Const {
		sp, fp := strParts(s), strParts(pre)
		if len(fp) <= len(sp) {
			same := true
			for i := range fp {
				if sp[i].S != fp[i].S {
					same = false
				}
			}
			if same {
				return true
			}
		}
		return st.Branch(StrPrefixOf(pre, s))
	}
	if d := st.preDecomp[s.S]; d != nil && strings.HasPrefix(d.sep, pre.CS) {
		return true
	}
	if ok, rem, structural := st.prefixParts(strParts(s), pre.CS); structural {
		if ok {
			st.preDecomp[s.S] = &decompRec{t: concatParts(rem), sep: pre.CS}
		}
		return ok
	}
	if !st.Branch(StrPrefixOf(pre, s)) {
		return false
	}
	if st.preDecomp[s.S] == nil {
		t := st.freshStr("suf")
		st.inherit(t, s)
		st.assertTerm(Eq(s, StrConcat(pre, t)))
		st.preDecomp[s.S] = &decompRec{t: t, sep: pre.CS}
	}
	return true
}

func (st *State) trimSuffix(s, suf *Term) *Term {
	if !st.hasSuffix(s, suf) {
		return s
	}
	if s.Const {
		return StrT(strings.TrimSuffix(s.CS, suf.CS))
	}
	if d := st.sufDecomp[s.S]; d != nil && suf.Const {
		if d.sep == suf.CS {
			return d.h
		}
		return StrConcat(d.h, StrT(strings.TrimSuffix(d.sep, suf.CS)))
	}
	if n := len(s.Parts); n > 1 && s.Parts[n-1].Const && suf.Const {
		last := StrT(strings.TrimSuffix(s.Parts[n-1].CS, suf.CS))
		return concatParts(append(append([]*Term(nil), s.Parts[:n-1]...), last))
	}
	sp, fp := strParts(s), strParts(suf)
	if len(fp) <= len(sp) {
		same := true
		for i := range fp {
			if sp[len(sp)-len(fp)+i].S != fp[i].S {
				same = false
			}
		}
		if same {
			return concatParts(sp[:len(sp)-len(fp)])
		}
	}
	return st.substr(s, IntT64(0), IntSub(st.strLen(s), st.strLen(suf)))
}

func (st *State) trimPrefix(s, pre *Term) *Term {
	if !st.hasPrefix(s, pre) {
		return s
	}
	if s.Const {
		return StrT(strings.TrimPrefix(s.CS, pre.CS))
	}
	if d := st.preDecomp[s.S]; d != nil && pre.Const {
		if d.sep == pre.CS {
			return d.t
		}
		return StrConcat(StrT(strings.TrimPrefix(d.sep, pre.CS)), d.t)
	}
	if len(s.Parts) > 1 && s.Parts[0].Const && pre.Const {
		first := StrT(strings.TrimPrefix(s.Parts[0].CS, pre.CS))
		return concatParts(append([]*Term{first}, s.Parts[1:]...))
	}
	sp, fp := strParts(s), strParts(pre)
	if len(fp) <= len(sp) {
		same := true
		for i := range fp {
			if sp[i].S != fp[i].S {
				same = false
			}
		}
		if same {
			return concatParts(sp[len(fp):])
		}
	}
	return st.substr(s, st.strLen(pre), st.strLen(s))
}

func concatParts(ps []*Term) *Term {
	r := StrT("")
	for _, p := range ps {
		r = StrConcat(r, p)
	}
	return r
}

// splitFirst finds the first occurrence of the constant, non-empty separator:
// s = h ++ sep ++ t with no earlier occurrence. Forks on containment.
func (st *State) splitFirst(s *Term, sep string) (found bool, h, t *Term) {
	if s.Const {
		i := strings.Index(s.CS, sep)
		if i < 0 {
			return false, nil, nil
		}
		return true, StrT(s.CS[:i]), StrT(s.CS[i+len(sep):])
	}
	key := s.S + "|" + sep
	if d := st.decomp[key]; d != nil {
		return true, d.h, d.t
	}
	if st.noSep[key] || st.cannotContain(s, sep) {
		return false, nil, nil
	}
	// structural shortcut for concatenations (single-byte separators only)
	if len(s.Parts) > 1 && len(sep) == 1 {
		var before []*Term
		for i, p := range s.Parts {
			if p.Const {
				if j := strings.Index(p.CS, sep); j >= 0 {
					h = concatParts(append(append([]*Term(nil), before...), StrT(p.CS[:j])))
					t = concatParts(append([]*Term{StrT(p.CS[j+1:])}, s.Parts[i+1:]...))
					return true, h, t
				}
				before = append(before, p)
				continue
			}
			if st.noSep[p.S+"|"+sep] || st.cannotContain(p, sep) {
				before = append(before, p)
				continue
			}
			// undecided piece: split it, then assemble
			f, ph, pt := st.splitFirst(p, sep)
			if f {
				h = concatParts(append(append([]*Term(nil), before...), ph))
				t = concatParts(append([]*Term{pt}, s.Parts[i+1:]...))
				return true, h, t
			}
			before = append(before, p)
		}
		return false, nil, nil
	}
	sepT := StrT(sep)
	if !st.Branch(StrContains(s, sepT)) {
		st.noSep[key] = true
		return false, nil, nil
	}
	h = st.freshStr("h")
	t = st.freshStr("t")
	st.inherit(h, s)
	st.inherit(t, s)
	st.assertTerm(Eq(s, concatParts([]*Term{h, sepT, t})))
	if len(sep) == 1 {
		st.assertTerm(Not(StrContains(h, sepT)))
		st.noSep[h.S+"|"+sep] = true
	} else {
		st.assertTerm(Not(StrContains(StrConcat(h, StrT(sep[:len(sep)-1])), sepT)))
	}
	st.decomp[key] = &decompRec{h: h, t: t, sep: sep}
	if st.decomp[s.S] == nil {
		st.decomp[s.S] = st.decomp[key]
	}
	return true, h, t
}

// substr is s[lo:hi] with 0 <= lo <= hi <= len(s) already established.
func (st *State) substr(s, lo, hi *Term) *Term {
	if s.Const && lo.Const && hi.Const {
		return StrT(s.CS[lo.CI.Int64():hi.CI.Int64()])
	}
	ll, lh := linOf(lo), linOf(hi)
	n := st.strLen(s)
	ln := linOf(n)
	zero := &Lin{}
	if linEq(ll, zero) && linEq(lh, ln) {
		return s
	}
	if linEq(ll, lh) {
		return StrT("")
	}
	// concatenations: peel whole leading/trailing parts
	if len(s.Parts) > 1 {
		if r := st.substrNoFresh(s, lo, hi); r != nil {
			return r
		}
		first := s.Parts[0]
		lf := linOf(st.strLen(first))
		rest := concatParts(s.Parts[1:])
		if linEq(ll, zero) && linEq(lh, lf) {
			return first
		}
		if linEq(ll, lf) {
			return st.substr(rest, IntT64(0), IntSub(hi, st.strLen(first)))
		}
		if first.Const && lo.Const && lo.CI.Int64() <= int64(len(first.CS)) && linEq(lh, ln) {
			return StrConcat(StrT(first.CS[lo.CI.Int64():]), rest)
		}
		last := s.Parts[len(s.Parts)-1]
		if linEq(ll, zero) && linEq(lh, linAdd(ln, linOf(st.strLen(last)), -1)) {
			return concatParts(s.Parts[:len(s.Parts)-1])
		}
	}
	for _, d := range []*decompRec{st.decomp[s.S], st.sufDecomp[s.S], st.preDecomp[s.S]} {
		if d == nil {
			continue
		}
		var pieces []*Term
		if d.h != nil {
			pieces = append(pieces, d.h)
		}
		pieces = append(pieces, StrT(d.sep))
		if d.t != nil {
			pieces = append(pieces, d.t)
		}
		flat := concatParts(pieces)
		if len(flat.Parts) > 1 {
			r := st.substrNoFresh(flat, lo, hi)
			if r != nil {
				return r
			}
		}
	}
	if len(s.Parts) <= 1 && !strings.HasPrefix(s.S, "(") {
		// plain variable: a depth-one substr term is cheap for the solver
		return StrSubstr(s, lo, hi)
	}
	// general case: fresh decomposition with length constraints
	key := st.cacheKey("substr", s.S, lo.S, hi.S)
	if r := st.subCache[key]; r != nil {
		return r
	}
	r := st.freshStr("sub")
	switch {
	case linEq(ll, zero):
		post := st.freshStr("post")
		st.assertTerm(Eq(s, StrConcat(r, post)))
		st.assertTerm(Eq(StrLen(r), hi))
	case linEq(lh, ln):
		pre := st.freshStr("pre")
		st.assertTerm(Eq(s, StrConcat(pre, r)))
		st.assertTerm(Eq(StrLen(pre), lo))
	default:
		pre := st.freshStr("pre")
		post := st.freshStr("post")
		st.assertTerm(Eq(s, concatParts([]*Term{pre, r, post})))
		st.assertTerm(Eq(StrLen(pre), lo))
		st.assertTerm(Eq(StrLen(r), IntSub(hi, lo)))
	}
	st.subCache[key] = r
	return r
}

// substrNoFresh tries the structural rules only (nil if none applies):
// both cut points must fall on part boundaries or inside constant parts.
func (st *State) substrNoFresh(s, lo, hi *Term) *Term {
	ll, lh := linOf(lo), linOf(hi)
	parts := strParts(s)
	// locate a cut point: returns (index of part, offset inside it) or ok=false
	locate := func(target *Lin, atEnd bool) (int, int, bool) {
		acc := &Lin{}
		for i := 0; i <= len(parts); i++ {
			d := linAdd(target, acc, -1)
			if len(d.M) == 0 {
				if d.C == 0 {
					return i, 0, true
				}
				if i < len(parts) && parts[i].Const && d.C > 0 && d.C <= int64(len(parts[i].CS)) {
					if d.C == int64(len(parts[i].CS)) {
						return i + 1, 0, true
					}
					return i, int(d.C), true
				}
			}
			if i < len(parts) {
				acc = linAdd(acc, linOf(st.strLen(parts[i])), 1)
			}
		}
		return 0, 0, false
	}
	pi, po, ok1 := locate(ll, false)
	qi, qo, ok2 := locate(lh, true)
	if !ok1 || !ok2 {
		return nil
	}
	if qi < pi || (qi == pi && qo < po) {
		return nil
	}
	var out []*Term
	for i := pi; i <= qi && i < len(parts); i++ {
		p := parts[i]
		from, to := 0, -1
		if i == pi {
			from = po
		}
		if i == qi {
			to = qo
		}
		if i == qi && qo == 0 {
			break
		}
		if p.Const {
			cs := p.CS
			if to >= 0 {
				cs = cs[:to]
			}
			out = append(out, StrT(cs[from:]))
		} else {
			if from != 0 || to > 0 {
				return nil
			}
			out = append(out, p)
		}
	}
	return concatParts(out)
}

// trimSpace strips ASCII white space structurally where the parts allow it.
func (st *State) trimSpace(s *Term) (*Term, bool) {
	const ws = " \t\n\v\f\r"
	parts := append([]*Term(nil), strParts(s)...)
	noWS := func(p *Term) bool {
		cs, ok := st.charset[p.S]
		return ok && !strings.ContainsAny(cs, ws)
	}
	for len(parts) > 0 {
		p := parts[0]
		if p.Const {
			t := strings.TrimLeft(p.CS, ws)
			if t == "" {
				parts = parts[1:]
				continue
			}
			parts[0] = StrT(t)
			break
		}
		if !noWS(p) {
			return nil, false
		}
		if st.Branch(Eq(p, StrT(""))) {
			parts = parts[1:]
			continue
		}
		break
	}
	for len(parts) > 0 {
		n := len(parts)
		p := parts[n-1]
		if p.Const {
			t := strings.TrimRight(p.CS, ws)
			if t == "" {
				parts = parts[:n-1]
				continue
			}
			parts[n-1] = StrT(t)
			break
		}
		if !noWS(p) {
			return nil, false
		}
		if st.Branch(Eq(p, StrT(""))) {
			parts = parts[:n-1]
			continue
		}
		break
	}
	return concatParts(parts), true
}

// strAt is the byte s[i] as an Int term (bounds already checked).
func (st *State) strAt(s, i *Term) *Term {
	if i.Const {
		k := i.CI.Int64()
		off := int64(0)
		for _, p := range strParts(s) {
			if !p.Const {
				break
			}
			if k < off+int64(len(p.CS)) {
				return IntT64(int64(p.CS[k-off]))
			}
			off += int64(len(p.CS))
		}
	}
	return StrAtCode(s, i)
}

var _ = fmt.Sprint
var _ = big.NewInt

// cannotContain: the charset recorded for s (or all of its parts) excludes a byte of sep.
func (st *State) cannotContain(s *Term, sep string) bool {
	if len(sep) != 1 {
		return false
	}
	for _, p := range strParts(s) {
		if p.Const {
			if strings.Contains(p.CS, sep) {
				return false
			}
			continue
		}
		cs, ok := st.charset[p.S]
		if !ok || strings.Contains(cs, sep) {
			return false
		}
	}
	return true
}

// suffixParts decides "parts end with suf" by aligning suf against the
// concatenation, forking only on equalities part == constant. structural is
// false when the charsets do not pin the alignment (caller falls back to the
// solver's str.suffixof).
func (st *State) suffixParts(parts []*Term, suf string) (ok bool, rem []*Term, structural bool) {
	if suf == "" {
		return true, parts, true
	}
	if len(parts) == 0 {
		return false, nil, true
	}
	n := len(parts)
	last := parts[n-1]
	if last.Const {
		if len(last.CS) >= len(suf) {
			if !strings.HasSuffix(last.CS, suf) {
				return false, nil, true
			}
			r := append([]*Term(nil), parts[:n-1]...)
			if len(last.CS) > len(suf) {
				r = append(r, StrT(last.CS[:len(last.CS)-len(suf)]))
			}
			return true, r, true
		}
		if !strings.HasSuffix(suf, last.CS) {
			return false, nil, true
		}
		return st.suffixParts(parts[:n-1], suf[:len(suf)-len(last.CS)])
	}
	cs, known := st.charset[last.S]
	if !known {
		return false, nil, false
	}
	j := -1
	for i := len(suf) - 1; i >= 0; i-- {
		if !strings.Contains(cs, suf[i:i+1]) {
			j = i
			break
		}
	}
	if j < 0 {
		return false, nil, false
	}
	for k := j + 1; k <= len(suf); k++ {
		if !possibleSuffix(parts[:n-1], suf[:k]) {
			continue
		}
		if st.Branch(Eq(last, StrT(suf[k:]))) {
			return st.suffixParts(parts[:n-1], suf[:k])
		}
	}
	return false, nil, true
}

func (st *State) prefixParts(parts []*Term, pre string) (ok bool, rem []*Term, structural bool) {
	if pre == "" {
		return true, parts, true
	}
	if len(parts) == 0 {
		return false, nil, true
	}
	first := parts[0]
	if first.Const {
		if len(first.CS) >= len(pre) {
			if !strings.HasPrefix(first.CS, pre) {
				return false, nil, true
			}
			var r []*Term
			if len(first.CS) > len(pre) {
				r = append(r, StrT(first.CS[len(pre):]))
			}
			return true, append(r, parts[1:]...), true
		}
		if !strings.HasPrefix(pre, first.CS) {
			return false, nil, true
		}
		return st.prefixParts(parts[1:], pre[len(first.CS):])
	}
	cs, known := st.charset[first.S]
	if !known {
		return false, nil, false
	}
	j := -1
	for i := 0; i < len(pre); i++ {
		if !strings.Contains(cs, pre[i:i+1]) {
			j = i
			break
		}
	}
	if j < 0 {
		return false, nil, false
	}
	for k := j; k >= 0; k-- {
		if !possiblePrefix(parts[1:], pre[k:]) {
			continue
		}
		if st.Branch(Eq(first, StrT(pre[:k]))) {
			return st.prefixParts(parts[1:], pre[k:])
		}
	}
	return false, nil, true
}

// possibleSuffix is a conservative structural test (false = surely not a suffix).
func possibleSuffix(parts []*Term, suf string) bool {
	if suf == "" {
		return true
	}
	if len(parts) == 0 {
		return false
	}
	last := parts[len(parts)-1]
	if !last.Const {
		return true
	}
	if len(last.CS) >= len(suf) {
		return strings.HasSuffix(last.CS, suf)
	}
	if !strings.HasSuffix(suf, last.CS) {
		return false
	}
	return possibleSuffix(parts[:len(parts)-1], suf[:len(suf)-len(last.CS)])
}

func possiblePrefix(parts []*Term, pre string) bool {
	if pre == "" {
		return true
	}
	if len(parts) == 0 {
		return false
	}
	first := parts[0]
	if !first.Const {
		return true
	}
	if len(first.CS) >= len(pre) {
		return strings.HasPrefix(first.CS, pre)
	}
	if !strings.HasPrefix(pre, first.CS) {
		return false
	}
	return possiblePrefix(parts[1:], pre[len(first.CS):])
}

func (st *State) strMaxLen(s *Term) (int, bool) {
	n := 0
	for _, p := range strParts(s) {
		if p.Const {
			n += len(p.CS)
			continue
		}
		m, ok := st.maxlen[p.S]
		if !ok {
			return 0, false
		}
		n += m
	}
	return n, true
}
