package sym

import (
	"fmt"
	"go/token"
	"go/types"
	"math"
)

// FPWidth maps float32/float64 to the SMT format width; FP32As/FP64As allow a
// reduced format for obligations that state it.
func (e *Engine) fpWidth(t types.Type) int {
	b := t.Underlying().(*types.Basic)
	switch b.Kind() {
	case types.Float32:
		if e.FP32As != 0 {
			return e.FP32As
		}
		return 32
	}
	if e.FP64As != 0 {
		return e.FP64As
	}
	return 64
}

func fpEbSb(w int) (int, int) {
	switch w {
	case 16:
		return 5, 11
	case 32:
		return 8, 24
	}
	return 11, 53
}

func (e *Engine) floatConst(f float64, t types.Type) *Term {
	w := e.fpWidth(t)
	eb, sb := fpEbSb(w)
	var s string
	switch {
	case math.IsNaN(f):
		s = fmt.Sprintf("(_ NaN %d %d)", eb, sb)
	case math.IsInf(f, 1):
		s = fmt.Sprintf("(_ +oo %d %d)", eb, sb)
	case math.IsInf(f, -1):
		s = fmt.Sprintf("(_ -oo %d %d)", eb, sb)
	case f == 0 && math.Signbit(f):
		s = fmt.Sprintf("(_ -zero %d %d)", eb, sb)
	case f == 0:
		s = fmt.Sprintf("(_ +zero %d %d)", eb, sb)
	default:
		bits := math.Float64bits(f)
		s = fmt.Sprintf("((_ to_fp %d %d) RNE (fp #b%b #b%011b #b%052b))", eb, sb, bits>>63, (bits>>52)&0x7ff, bits&((1<<52)-1))
		if w == 64 {
			s = fmt.Sprintf("(fp #b%b #b%011b #b%052b)", bits>>63, (bits>>52)&0x7ff, bits&((1<<52)-1))
		}
	}
	return &Term{S: s, Sort: SFP, W: w}
}

func fpNeg(a *Term) *Term { return mk(SFP, a.W, "(fp.neg %s)", a.S) }

func (st *State) fpBinop(op token.Token, a, b *Term, t types.Type) Value {
	switch op {
	case token.ADD:
		return mk(SFP, a.W, "(fp.add RNE %s %s)", a.S, b.S)
	case token.SUB:
		return mk(SFP, a.W, "(fp.sub RNE %s %s)", a.S, b.S)
	case token.MUL:
		return mk(SFP, a.W, "(fp.mul RNE %s %s)", a.S, b.S)
	case token.QUO:
		return mk(SFP, a.W, "(fp.div RNE %s %s)", a.S, b.S)
	case token.LSS:
		return mk(SBool, 0, "(fp.lt %s %s)", a.S, b.S)
	case token.LEQ:
		return mk(SBool, 0, "(fp.leq %s %s)", a.S, b.S)
	case token.GTR:
		return mk(SBool, 0, "(fp.gt %s %s)", a.S, b.S)
	case token.GEQ:
		return mk(SBool, 0, "(fp.geq %s %s)", a.S, b.S)
	}
	st.unsupported("float op %s", op)
	return nil
}

func (st *State) complexBinop(op token.Token, a, b *StructV, t types.Type) Value {
	ar, ai := a.F[0].(*Term), a.F[1].(*Term)
	br, bi := b.F[0].(*Term), b.F[1].(*Term)
	switch op {
	case token.ADD:
		return &StructV{F: []Value{mk(SFP, ar.W, "(fp.add RNE %s %s)", ar.S, br.S), mk(SFP, ar.W, "(fp.add RNE %s %s)", ai.S, bi.S)}}
	case token.SUB:
		return &StructV{F: []Value{mk(SFP, ar.W, "(fp.sub RNE %s %s)", ar.S, br.S), mk(SFP, ar.W, "(fp.sub RNE %s %s)", ai.S, bi.S)}}
	}
	st.unsupported("complex op %s", op)
	return nil
}

func (st *State) intToFloat(v *Term, from, to types.Type) Value {
	w := st.E.fpWidth(to)
	eb, sb := fpEbSb(w)
	_, signed := intInfo(from)
	if v.Sort == SInt {
		return mk(SFP, w, "((_ to_fp %d %d) RNE (to_real %s))", eb, sb, v.S)
	}
	if signed {
		return mk(SFP, w, "((_ to_fp %d %d) RNE %s)", eb, sb, v.S)
	}
	return mk(SFP, w, "((_ to_fp_unsigned %d %d) RNE %s)", eb, sb, v.S)
}

func (st *State) floatToInt(v *Term, from, to types.Type) Value {
	bits, signed := intInfo(to)
	if st.E.IntMode {
		st.unsupported("float to int in Int mode")
	}
	if signed {
		return mk(SBV, bits, "((_ fp.to_sbv %d) RTZ %s)", bits, v.S)
	}
	return mk(SBV, bits, "((_ fp.to_ubv %d) RTZ %s)", bits, v.S)
}

func (st *State) floatToFloat(v *Term, from, to types.Type) Value {
	w := st.E.fpWidth(to)
	if w == v.W {
		return v
	}
	eb, sb := fpEbSb(w)
	return mk(SFP, w, "((_ to_fp %d %d) RNE %s)", eb, sb, v.S)
}
