package sym

import (
	"fmt"
	"go/token"
	"go/types"
	"math/big"
	"os"
	"unicode/utf8"

	"golang.org/x/tools/go/ssa"
)

func (st *State) unop(fr *frame, x *ssa.UnOp) Value {
	v := st.val(fr, x.X)
	switch x.Op {
	case token.MUL: // load
		p, ok := v.(*PtrV)
		if !ok {
			st.unsupported("load through %T", v)
		}
		return st.load(p)
	case token.NOT:
		return Not(v.(*Term))
	case token.SUB:
		t := x.X.Type()
		switch {
		case isIntType(t):
			return st.binop(token.SUB, st.E.intTerm(big.NewInt(0), t), v, t, t)
		case isFloatType(t):
			return fpNeg(v.(*Term))
		case isComplexType(t):
			c := v.(*StructV)
			return &StructV{F: []Value{fpNeg(c.F[0].(*Term)), fpNeg(c.F[1].(*Term))}}
		}
	case token.XOR:
		t := x.X.Type()
		if vt, ok := v.(*Term); ok && vt.Sort == SInt {
			// integer encoding: ^x is -x-1 (signed) or max-x (unsigned): linear, no bit-vector detour
			bits, signed := intInfo(t)
			if signed {
				return IntSub(IntNeg(vt), IntT64(1))
			}
			_, hi := intRange(bits, false)
			return IntSub(IntT(hi), vt)
		}
		return st.binop(token.XOR, v, st.E.intTerm(big.NewInt(-1), t), t, t)
	case token.ARROW:
		return st.E.chanRecv(st, fr, v, x.CommaOk, x.Type())
	}
	st.unsupported("unary %s on %s", x.Op, x.X.Type())
	return nil
}

// eqValues builds the equality of two values of the same static type.
func (st *State) eqValues(a, b Value) *Term {
	switch x := a.(type) {
	case *Term:
		y := b.(*Term)
		if x.Sort == SString {
			// s[:k] == "const" of length k  <=>  HasPrefix(s, "const")
			for _, pr := range [][2]*Term{{x, y}, {y, x}} {
				sub, c := pr[0], pr[1]
				if sub.SubOf != nil && c.Const && sub.SubLo.Const && sub.SubLo.CI.Sign() == 0 && sub.SubHi.Const &&
					sub.SubHi.CI.Int64() == int64(len(c.CS)) && len(c.CS) > 0 {
					return BoolT(st.hasPrefix(sub.SubOf, c))
				}
			}
		}
		return Eq(x, y)
	case *PtrV:
		y := b.(*PtrV)
		if x.Obj != y.Obj || len(x.Path) != len(y.Path) {
			return FalseT
		}
		for i := range x.Path {
			if x.Path[i] != y.Path[i] {
				return FalseT
			}
		}
		return TrueT
	case *StructV:
		y := b.(*StructV)
		var cs []*Term
		for i := range x.F {
			cs = append(cs, st.eqValues(x.F[i], y.F[i]))
		}
		return And(cs...)
	case *ArrayV:
		y := b.(*ArrayV)
		var cs []*Term
		for i := range x.E {
			cs = append(cs, st.eqValues(x.E[i], y.E[i]))
		}
		return And(cs...)
	case *IfaceV:
		y, ok := b.(*IfaceV)
		if !ok {
			st.unsupported("interface compared with %T", b)
		}
		if x.T == nil || y.T == nil {
			return BoolT(x.T == nil && y.T == nil)
		}
		if !types.Identical(x.T, y.T) {
			return FalseT
		}
		return st.eqValues(x.V, y.V)
	case *FuncV:
		y := b.(*FuncV)
		if x.IsNil() || y.IsNil() {
			return BoolT(x.IsNil() && y.IsNil())
		}
		st.unsupported("comparison of non-nil funcs")
	case *SliceV:
		y := b.(*SliceV)
		if x.Obj == nil || y.Obj == nil {
			return BoolT(x.Obj == nil && y.Obj == nil)
		}
		st.unsupported("comparison of non-nil slices")
	case *MapV:
		y := b.(*MapV)
		if x.Obj == nil || y.Obj == nil {
			return BoolT(x.Obj == nil && y.Obj == nil)
		}
		st.unsupported("comparison of non-nil maps")
	case *ChanV:
		y := b.(*ChanV)
		return BoolT(x.Obj == y.Obj)
	case *RVal:
		// reflect.Value == reflect.Value compares the type word, the data word and the flags:
		// two Values of the same addressable location are equal; otherwise the outcome depends
		// on allocation identity, which is not modelled: either result (decided natively on replay)
		y, ok := b.(*RVal)
		if !ok {
			return FalseT
		}
		if x == y {
			return TrueT
		}
		if x.Kind != y.Kind {
			return FalseT
		}
		if x.Kind == rkInvalid {
			return TrueT
		}
		if x.Ref != nil && y.Ref != nil {
			return st.eqValues(x.Ref, y.Ref)
		}
		if x.Kind == rkPtr && x.Ref == nil && y.Ref == nil {
			// pointer-shaped: the data word is the pointer itself
			if x.Typ != nil && y.Typ != nil && x.Typ.GoType != nil && y.Typ.GoType != nil && !types.Identical(x.Typ.GoType, y.Typ.GoType) {
				return FalseT
			}
			px, okx := x.Val.(*PtrV)
			py, oky := y.Val.(*PtrV)
			if okx && oky {
				return st.eqValues(px, py)
			}
			if st.E.Trace {
				fmt.Printf("    rvaleq ptr payloads %T %T\n", x.Val, y.Val)
			}
		}
		if (x.Kind == rkChan || x.Kind == rkMap) && x.Ref == nil && y.Ref == nil && x.Val != nil && y.Val != nil {
			// pointer-shaped as well: identity of the channel or map
			switch xv := x.Val.(type) {
			case *ChanV:
				if yv, ok := y.Val.(*ChanV); ok {
					return BoolT(xv.Obj == yv.Obj)
				}
			case *MapV:
				if yv, ok := y.Val.(*MapV); ok {
					return BoolT(xv.Obj == yv.Obj)
				}
			}
		}
		if x.Kind == rkFunc && x.Ref == nil && y.Ref == nil {
			// pointer-shaped too: the code pointer of a top-level function, the closure object otherwise
			fx, okx := x.Val.(*FuncV)
			fy, oky := y.Val.(*FuncV)
			if okx && oky {
				if fx.IsNil() || fy.IsNil() {
					return BoolT(fx.IsNil() && fy.IsNil())
				}
				if fx.Fn != fy.Fn || fx.Native != fy.Native {
					return FalseT
				}
				if len(fx.Env) == 0 && len(fy.Env) == 0 && fx.Recv == nil && fy.Recv == nil {
					return TrueT
				}
				if fx.ID != 0 && fy.ID != 0 {
					return BoolT(fx.ID == fy.ID)
				}
			}
		}
		if st.E.Trace {
			fmt.Printf("    rvaleq kind=%s ref=%v/%v payloads %T %T\n", rkNames[x.Kind], x.Ref != nil, y.Ref != nil, x.Val, y.Val)
		}
		return st.FreshTerm("rvaleq", SBool, 0)
	case *OpaqueV:
		y, ok := b.(*OpaqueV)
		return BoolT(ok && x.ID == y.ID)
	case nil:
		return BoolT(b == nil)
	}
	if h := st.E.eqHook; h != nil {
		if r, ok := h(st, a, b); ok {
			return r
		}
	}
	st.unsupported("equality on %T", a)
	return nil
}

func (st *State) binop(op token.Token, a, b Value, ta, tb types.Type) Value {
	switch op {
	case token.EQL:
		return st.eqValues(a, b)
	case token.NEQ:
		return Not(st.eqValues(a, b))
	}
	switch {
	case isStringType(ta):
		x, y := a.(*Term), b.(*Term)
		switch op {
		case token.ADD:
			return StrConcat(x, y)
		case token.LSS:
			return StrLt(x, y)
		case token.LEQ:
			return StrLe(x, y)
		case token.GTR:
			return StrLt(y, x)
		case token.GEQ:
			return StrLe(y, x)
		}
	case isIntType(ta):
		return st.intBinop(op, a.(*Term), b.(*Term), ta, tb)
	case isFloatType(ta):
		return st.fpBinop(op, a.(*Term), b.(*Term), ta)
	case isComplexType(ta):
		return st.complexBinop(op, a.(*StructV), b.(*StructV), ta)
	case isBoolType(ta):
		x, y := a.(*Term), b.(*Term)
		switch op {
		case token.AND, token.LAND:
			return And(x, y)
		case token.OR, token.LOR:
			return Or(x, y)
		}
	}
	st.unsupported("binary %s on %s", op, ta)
	return nil
}

func (st *State) intBinop(op token.Token, a, b *Term, ta, tb types.Type) Value {
	bits, signed := intInfo(ta)
	if st.E.IntMode {
		return st.intBinopInt(op, a, b, bits, signed, tb)
	}
	return st.intBinopBV(op, a, b, bits, signed, tb)
}

func (st *State) intBinopInt(op token.Token, a, b *Term, bits int, signed bool, tb types.Type) Value {
	w := func(t *Term) *Term { return WrapInt(t, bits, signed) }
	switch op {
	case token.ADD:
		return w(IntAdd(a, b))
	case token.SUB:
		return w(IntSub(a, b))
	case token.MUL:
		return w(IntMul(a, b))
	case token.QUO:
		if st.Branch(Eq(b, IntT64(0))) {
			st.throwRuntime("divide", "integer divide by zero")
		}
		return w(IntTDiv(a, b))
	case token.REM:
		if st.Branch(Eq(b, IntT64(0))) {
			st.throwRuntime("divide", "integer divide by zero")
		}
		return w(IntTRem(a, b))
	case token.LSS:
		return IntLt(a, b)
	case token.LEQ:
		return IntLe(a, b)
	case token.GTR:
		return IntLt(b, a)
	case token.GEQ:
		return IntLe(b, a)
	case token.SHL, token.SHR:
		_, bsigned := intInfo(tb)
		if bsigned {
			if st.Branch(IntLt(b, IntT64(0))) {
				st.throwRuntime("shift", "negative shift amount")
			}
		}
		if b.Const {
			n := b.CI
			if n.Cmp(big.NewInt(int64(bits))) >= 0 {
				if op == token.SHL || !signed {
					return IntT64(0)
				}
				return Ite(IntLt(a, IntT64(0)), IntT64(-1), IntT64(0))
			}
			p := IntT(new(big.Int).Lsh(big.NewInt(1), uint(n.Int64())))
			if op == token.SHL {
				return w(IntMul(a, p))
			}
			// floor division by 2^n == arithmetic shift
			return w(IntFloorDivPos(a, p))
		}
		// symbolic count: ite ladder over 0..bits-1
		var res *Term
		if op == token.SHL || !signed {
			res = IntT64(0)
		} else {
			res = Ite(IntLt(a, IntT64(0)), IntT64(-1), IntT64(0))
		}
		for n := bits - 1; n >= 0; n-- {
			p := IntT(new(big.Int).Lsh(big.NewInt(1), uint(n)))
			var v *Term
			if op == token.SHL {
				v = w(IntMul(a, p))
			} else {
				v = IntFloorDivPos(a, p)
			}
			res = Ite(Eq(b, IntT64(int64(n))), v, res)
		}
		return res
	case token.AND, token.OR, token.XOR, token.AND_NOT:
		if a.Const && b.Const {
			x, y := new(big.Int).Set(a.CI), new(big.Int).Set(b.CI)
			var r *big.Int
			switch op {
			case token.AND:
				r = new(big.Int).And(x, y)
			case token.OR:
				r = new(big.Int).Or(x, y)
			case token.XOR:
				r = new(big.Int).Xor(x, y)
			default:
				r = new(big.Int).AndNot(x, y)
			}
			return w(IntT(r))
		}
		bvop := map[token.Token]string{token.AND: "bvand", token.OR: "bvor", token.XOR: "bvxor"}[op]
		if a.FromBV != nil && b.FromBV != nil && a.FromBV.W == bits && b.FromBV.W == bits {
			// both operands are bit-vectors seen as integers: operate on the bit-vectors
			y := b.FromBV
			bo := bvop
			if op == token.AND_NOT {
				y = mk(SBV, bits, "(bvnot %s)", y.S)
				bo = "bvand"
			}
			rb := foldBV(bo, a.FromBV, y)
			u := mk(SInt, 0, "(bv2int %s)", rb.S)
			u.FromBV = rb
			u.Lo = big.NewInt(0)
			u.Hi = new(big.Int).Sub(new(big.Int).Lsh(big.NewInt(1), uint(bits)), big.NewInt(1))
			return w(u)
		}
		bs := fmt.Sprintf("((_ int2bv %d) %s)", bits, b.S)
		if op == token.AND_NOT {
			bvop = "bvand"
			bs = "(bvnot " + bs + ")"
		}
		u := mk(SInt, 0, "(bv2int (%s ((_ int2bv %d) %s) %s))", bvop, bits, a.S, bs)
		u.Lo = big.NewInt(0)
		u.Hi = new(big.Int).Sub(new(big.Int).Lsh(big.NewInt(1), uint(bits)), big.NewInt(1))
		return w(u)
	}
	st.unsupported("int op %s (Int mode)", op)
	return nil
}

func (st *State) intBinopBV(op token.Token, a, b *Term, bits int, signed bool, tb types.Type) Value {
	pick := func(s, u string) string {
		if signed {
			return s
		}
		return u
	}
	switch op {
	case token.ADD:
		return foldBV("bvadd", a, b)
	case token.SUB:
		return foldBV("bvsub", a, b)
	case token.MUL:
		return foldBV("bvmul", a, b)
	case token.AND:
		return foldBV("bvand", a, b)
	case token.OR:
		return foldBV("bvor", a, b)
	case token.XOR:
		return foldBV("bvxor", a, b)
	case token.AND_NOT:
		if b.Const {
			m := new(big.Int).Sub(new(big.Int).Lsh(big.NewInt(1), uint(b.W)), big.NewInt(1))
			return foldBV("bvand", a, BVT(new(big.Int).Xor(b.CI, m), b.W))
		}
		return foldBV("bvand", a, mk(SBV, b.W, "(bvnot %s)", b.S))
	case token.QUO, token.REM:
		if st.Branch(Eq(b, BVT(big.NewInt(0), bits))) {
			st.throwRuntime("divide", "integer divide by zero")
		}
		if a.Const && b.Const {
			x, y := a.CI, b.CI
			if signed {
				x, y = signedVal(a), signedVal(b)
			}
			if op == token.QUO {
				return BVT(new(big.Int).Quo(x, y), bits)
			}
			return BVT(new(big.Int).Rem(x, y), bits)
		}
		if op == token.QUO {
			return bvBin(pick("bvsdiv", "bvudiv"), a, b)
		}
		return bvBin(pick("bvsrem", "bvurem"), a, b)
	case token.LSS:
		return bvCmp(pick("bvslt", "bvult"), a, b, signed)
	case token.LEQ:
		return bvCmp(pick("bvsle", "bvule"), a, b, signed)
	case token.GTR:
		return bvCmp(pick("bvslt", "bvult"), b, a, signed)
	case token.GEQ:
		return bvCmp(pick("bvsle", "bvule"), b, a, signed)
	case token.SHL, token.SHR:
		bbits, bsigned := intInfo(tb)
		if bsigned {
			if st.Branch(bvCmp("bvslt", b, BVT(big.NewInt(0), bbits), true)) {
				st.throwRuntime("shift", "negative shift amount")
			}
		}
		// bring the count to the operand width, saturating
		var cnt *Term
		switch {
		case bbits == bits:
			cnt = b
		case bbits < bits:
			cnt = BVZeroExt(b, bits)
		default:
			// count wider than operand: saturate at bits
			big_ := bvCmp("bvuge", b, BVT(big.NewInt(int64(bits)), bbits), false)
			cnt = Ite(big_, BVT(big.NewInt(int64(bits)), bits), BVExtract(b, bits-1, 0))
		}
		if a.Const && cnt.Const {
			c := cnt.CI
			if c.Cmp(big.NewInt(int64(bits))) >= 0 {
				if op == token.SHR && signed && signedVal(a).Sign() < 0 {
					return BVT(big.NewInt(-1), bits)
				}
				return BVT(big.NewInt(0), bits)
			}
			n := uint(c.Int64())
			switch {
			case op == token.SHL:
				return BVT(new(big.Int).Lsh(a.CI, n), bits)
			case signed:
				return BVT(new(big.Int).Rsh(signedVal(a), n), bits)
			default:
				return BVT(new(big.Int).Rsh(a.CI, n), bits)
			}
		}
		switch {
		case op == token.SHL:
			return bvBin("bvshl", a, cnt)
		case signed:
			return bvBin("bvashr", a, cnt)
		default:
			return bvBin("bvlshr", a, cnt)
		}
	}
	st.unsupported("int op %s (BV mode)", op)
	return nil
}

func foldBV(op string, a, b *Term) *Term {
	if a.Const && b.Const {
		x, y := a.CI, b.CI
		var r *big.Int
		switch op {
		case "bvadd":
			r = new(big.Int).Add(x, y)
		case "bvsub":
			r = new(big.Int).Sub(x, y)
		case "bvmul":
			r = new(big.Int).Mul(x, y)
		case "bvand":
			r = new(big.Int).And(x, y)
		case "bvor":
			r = new(big.Int).Or(x, y)
		case "bvxor":
			r = new(big.Int).Xor(x, y)
		}
		if r != nil {
			return BVT(r, a.W)
		}
	}
	return bvBin(op, a, b)
}

func bvCmp(op string, a, b *Term, signed bool) *Term {
	if a.Const && b.Const {
		var x, y *big.Int
		if signed {
			x, y = signedVal(a), signedVal(b)
		} else {
			x, y = a.CI, b.CI
		}
		c := x.Cmp(y)
		switch op {
		case "bvslt", "bvult":
			return BoolT(c < 0)
		case "bvsle", "bvule":
			return BoolT(c <= 0)
		case "bvuge", "bvsge":
			return BoolT(c >= 0)
		}
	}
	return bvPred(op, a, b)
}

// convert implements ssa.Convert between basic types.
func (st *State) convert(v Value, from, to types.Type) Value {
	switch {
	case isIntType(from) && isIntType(to):
		t := v.(*Term)
		fb, fs := intInfo(from)
		tb, ts := intInfo(to)
		if st.E.IntMode {
			return WrapInt(t, tb, ts)
		}
		switch {
		case tb == fb:
			return t
		case tb < fb:
			return BVExtract(t, tb-1, 0)
		case fs:
			return BVSignExt(t, tb)
		default:
			return BVZeroExt(t, tb)
		}
	case isIntType(from) && isStringType(to):
		t := v.(*Term)
		return StrFromCode(st.mathInt(t, from))
	case isStringType(from) && isStringType(to):
		return v
	case isBoolType(from) && isBoolType(to):
		return v
	case isIntType(from) && isFloatType(to):
		return st.intToFloat(v.(*Term), from, to)
	case isFloatType(from) && isIntType(to):
		return st.floatToInt(v.(*Term), from, to)
	case isFloatType(from) && isFloatType(to):
		return st.floatToFloat(v.(*Term), from, to)
	case isComplexType(from) && isComplexType(to):
		c := v.(*StructV)
		ft := types.Typ[types.Float64]
		tt := types.Typ[types.Float64]
		if from.Underlying().(*types.Basic).Kind() == types.Complex64 {
			ft = types.Typ[types.Float32]
		}
		if to.Underlying().(*types.Basic).Kind() == types.Complex64 {
			tt = types.Typ[types.Float32]
		}
		return &StructV{F: []Value{st.floatToFloat(c.F[0].(*Term), ft, tt), st.floatToFloat(c.F[1].(*Term), ft, tt)}}
	}
	// string <-> []byte for constant contents
	if isStringType(from) {
		if sl, ok := to.Underlying().(*types.Slice); ok && isIntType(sl.Elem()) {
			t := v.(*Term)
			if !t.Const {
				st.unsupported("[]byte(symbolic string)")
			}
			var el []Value
			if b, ok := sl.Elem().Underlying().(*types.Basic); ok && b.Kind() == types.Int32 {
				// []rune(s)
				for _, r := range t.CS {
					el = append(el, st.E.intTerm(big.NewInt(int64(r)), sl.Elem()))
				}
			} else {
				for i := 0; i < len(t.CS); i++ {
					el = append(el, st.E.intTerm(big.NewInt(int64(t.CS[i])), sl.Elem()))
				}
			}
			if len(el) == 0 {
				return &SliceV{}
			}
			o := st.newObject(nil, "bytes", &ArrayV{E: el})
			return &SliceV{Obj: o, Len: len(el), Cap: len(el)}
		}
	}
	if sl, ok := from.Underlying().(*types.Slice); ok && isStringType(to) && isIntType(sl.Elem()) {
		sv := v.(*SliceV)
		var bs []byte
		isRune := false
		if b, ok := sl.Elem().Underlying().(*types.Basic); ok && b.Kind() == types.Int32 {
			isRune = true
		}
		for _, e := range st.sliceElems(sv) {
			t := e.(*Term)
			if !t.Const {
				st.unsupported("string(symbolic bytes)")
			}
			if isRune {
				bs = append(bs, string(rune(t.CI.Int64()))...)
			} else {
				bs = append(bs, byte(t.CI.Int64()))
			}
		}
		return StrT(string(bs))
	}
	// pointer <-> unsafe.Pointer and the like: identity
	switch from.Underlying().(type) {
	case *types.Pointer:
		return v
	}
	if b, ok := from.Underlying().(*types.Basic); ok && b.Kind() == types.UnsafePointer {
		return v
	}
	if _, ok := from.Underlying().(*types.Slice); ok && isStringType(to) {
		// string([]byte): only for concrete contents
		st.unsupported("string(slice) conversion")
	}
	st.unsupported("conversion %s -> %s", from, to)
	return nil
}

func (st *State) typeAssert(fr *frame, x *ssa.TypeAssert) Value {
	v := st.val(fr, x.X)
	iv, ok := v.(*IfaceV)
	if !ok {
		st.unsupported("type assertion on %T", v)
	}
	okRes := false
	var res Value
	if iv.T != nil {
		if types.IsInterface(x.AssertedType) {
			it := x.AssertedType.Underlying().(*types.Interface)
			if st.E.implements(iv.T, it) {
				okRes = true
				res = iv
			}
		} else if types.Identical(iv.T, x.AssertedType) {
			okRes = true
			res = iv.V
		}
	}
	if x.CommaOk {
		if !okRes {
			res = st.E.Zero(x.AssertedType)
		}
		return TupleV{res, BoolT(okRes)}
	}
	if !okRes {
		st.throwRuntime("typeassert", fmt.Sprintf("interface conversion: %v is not %s", iv.T, x.AssertedType))
	}
	return res
}

// ---- indexing ----

// concretizeIndex forks on the value of an index in [0,n).
func (st *State) concretizeIndex(idx *Term, t types.Type, n int, what string) int {
	m := st.mathInt(idx, t)
	if m.Const {
		k := m.CI
		if k.Sign() < 0 || k.Cmp(big.NewInt(int64(n))) >= 0 {
			st.throwRuntime("index", fmt.Sprintf("index out of range [%s] with length %d (%s)", k, n, what))
		}
		return int(k.Int64())
	}
	if st.Branch(Or(IntLt(m, IntT64(0)), IntLe(IntT64(int64(n)), m))) {
		st.throwRuntime("index", fmt.Sprintf("index out of range with length %d (%s)", n, what))
	}
	for i := 0; i < n-1; i++ {
		if st.Branch(Eq(m, IntT64(int64(i)))) {
			return i
		}
	}
	return n - 1
}

func (st *State) indexAddr(fr *frame, x *ssa.IndexAddr) Value {
	base := st.val(fr, x.X)
	idx := st.val(fr, x.Index).(*Term)
	switch b := base.(type) {
	case *SliceV:
		if b.Obj == nil {
			st.throwRuntime("index", "index out of range (nil slice)")
		}
		i := st.concretizeIndex(idx, x.Index.Type(), b.Len, "slice")
		return &PtrV{Obj: b.Obj, Path: []int{b.Off + i}}
	case *PtrV: // pointer to array
		if b.Obj == nil {
			st.throwRuntime("nil", "nil pointer dereference (array index)")
		}
		at := x.X.Type().Underlying().(*types.Pointer).Elem().Underlying().(*types.Array)
		i := st.concretizeIndex(idx, x.Index.Type(), int(at.Len()), "array")
		np := make([]int, len(b.Path)+1)
		copy(np, b.Path)
		np[len(b.Path)] = i
		return &PtrV{Obj: b.Obj, Path: np}
	}
	st.unsupported("IndexAddr on %T", base)
	return nil
}

func (st *State) index(fr *frame, x *ssa.Index) Value {
	base := st.val(fr, x.X)
	idx := st.val(fr, x.Index).(*Term)
	switch b := base.(type) {
	case *ArrayV:
		i := st.concretizeIndex(idx, x.Index.Type(), len(b.E), "array")
		return b.E[i]
	case *Term: // string
		m := st.mathInt(idx, x.Index.Type())
		n := st.strLen(b)
		if st.Branch(Or(IntLt(m, IntT64(0)), IntLe(n, m))) {
			st.throwRuntime("index", "string index out of range")
		}
		return st.fromMathInt(st.strAt(b, m), types.Typ[types.Uint8])
	}
	st.unsupported("Index on %T", base)
	return nil
}

func (st *State) lookup(fr *frame, x *ssa.Lookup) Value {
	base := st.val(fr, x.X)
	switch b := base.(type) {
	case *Term: // string index
		idx := st.mathInt(st.val(fr, x.Index).(*Term), x.Index.Type())
		n := st.strLen(b)
		if st.Branch(Or(IntLt(idx, IntT64(0)), IntLe(n, idx))) {
			st.throwRuntime("index", "string index out of range")
		}
		c := st.strAt(b, idx)
		return st.fromMathInt(c, types.Typ[types.Uint8])
	case *MapV:
		k := st.val(fr, x.Index)
		mt := x.X.Type().Underlying().(*types.Map)
		v, ok := st.mapLookup(b, k, mt.Elem())
		if x.CommaOk {
			return TupleV{v, ok}
		}
		return v
	}
	st.unsupported("Lookup on %T", base)
	return nil
}

// mapLookup reads a key. For scalar-valued maps the result is an ite chain
// (no forking); otherwise the path forks on key equality.
func (st *State) mapLookup(m *MapV, k Value, elem types.Type) (Value, *Term) {
	zero := st.E.Zero(elem)
	if m.Obj == nil {
		return zero, FalseT
	}
	md := st.get(m.Obj).(*MapData)
	_, scalar := zero.(*Term)
	if scalar {
		var val *Term = zero.(*Term)
		ok := FalseT
		if md.BasePres != "" {
			kt := k.(*Term)
			ok = mk(SBool, 0, "(select %s %s)", md.BasePres, kt.S)
			val = Ite(ok, mk(SString, 0, "(select %s %s)", md.BaseVal, kt.S), zero.(*Term))
		}
		for _, e := range md.Entries {
			c := st.eqValues(e.K, k)
			if e.Deleted {
				val = Ite(c, zero.(*Term), val)
				ok = Ite(c, FalseT, ok)
			} else {
				val = Ite(c, e.V.(*Term), val)
				ok = Ite(c, TrueT, ok)
			}
		}
		return val, ok
	}
	if md.BasePres != "" {
		st.unsupported("symbolic base map with non-scalar values")
	}
	for i := len(md.Entries) - 1; i >= 0; i-- {
		e := md.Entries[i]
		if st.Branch(st.eqValues(e.K, k)) {
			if e.Deleted {
				return zero, FalseT
			}
			return e.V, TrueT
		}
	}
	return zero, FalseT
}

func (st *State) mapUpdate(mv, k, v Value) {
	m := mv.(*MapV)
	if m.Obj == nil {
		st.throwRuntime("nilmap", "assignment to entry in nil map")
	}
	md := st.get(m.Obj).(*MapData)
	nd := &MapData{BasePres: md.BasePres, BaseVal: md.BaseVal}
	nd.Entries = append(append([]MapEntry(nil), md.Entries...), MapEntry{K: k, V: v})
	st.set(m.Obj, nd)
}

func (st *State) mapDelete(mv, k Value) {
	m := mv.(*MapV)
	if m.Obj == nil {
		return
	}
	md := st.get(m.Obj).(*MapData)
	nd := &MapData{BasePres: md.BasePres, BaseVal: md.BaseVal}
	nd.Entries = append(append([]MapEntry(nil), md.Entries...), MapEntry{K: k, Deleted: true})
	st.set(m.Obj, nd)
}

// liveEntries resolves the write log into the distinct live keys; requires
// that key equality be decidable on this path (forks otherwise).
func (st *State) liveEntries(m *MapV) (keys, vals []Value) {
	if m.Obj == nil {
		return nil, nil
	}
	md := st.get(m.Obj).(*MapData)
	if md.BasePres != "" {
		st.unsupported("iteration over a symbolic base map")
	}
	type ent struct {
		k, v Value
		del  bool
	}
	var live []ent
	for _, e := range md.Entries {
		found := false
		for i := range live {
			if st.Branch(st.eqValues(live[i].k, e.K)) {
				live[i].v = e.V
				live[i].del = e.Deleted
				found = true
				break
			}
		}
		if !found {
			live = append(live, ent{e.K, e.V, e.Deleted})
		}
	}
	for _, l := range live {
		if !l.del {
			keys = append(keys, l.k)
			vals = append(vals, l.v)
		}
	}
	return
}

func (st *State) makeSlice(elem types.Type, n, c int) *SliceV {
	if n < 0 || c < n {
		st.throwRuntime("slice", "makeslice: len out of range")
	}
	el := make([]Value, c)
	z := st.E.Zero(elem)
	for i := range el {
		el[i] = z
	}
	o := st.newObject(types.NewArray(elem, int64(c)), "makeslice", &ArrayV{E: el})
	return &SliceV{Obj: o, Len: n, Cap: c}
}

func (st *State) sliceOp(fr *frame, x *ssa.Slice) Value {
	base := st.val(fr, x.X)
	get := func(v ssa.Value) *Term {
		if v == nil {
			return nil
		}
		return st.mathInt(st.val(fr, v).(*Term), v.Type())
	}
	lo, hi, mx := get(x.Low), get(x.High), get(x.Max)
	switch b := base.(type) {
	case *Term: // string
		n := st.strLen(b)
		if lo == nil {
			lo = IntT64(0)
		}
		if hi == nil {
			hi = n
		}
		bad := Or(IntLt(lo, IntT64(0)), IntLt(hi, lo), IntLt(n, hi))
		if st.Branch(bad) {
			st.throwRuntime("slice", "slice bounds out of range (string)")
		}
		return st.substr(b, lo, hi)
	case *SliceV:
		l, h, m := 0, b.Len, b.Cap
		if lo != nil {
			l = st.concreteInt(lo, "slice low")
		}
		if hi != nil {
			h = st.concreteInt(hi, "slice high")
		}
		if mx != nil {
			m = st.concreteInt(mx, "slice max")
		}
		if l < 0 || h < l || m < h || m > b.Cap {
			st.throwRuntime("slice", "slice bounds out of range")
		}
		if b.Obj == nil {
			return &SliceV{}
		}
		return &SliceV{Obj: b.Obj, Off: b.Off + l, Len: h - l, Cap: m - l}
	case *PtrV: // pointer to array
		if b.Obj == nil {
			st.throwRuntime("nil", "slice of nil array pointer")
		}
		arr := st.load(b).(*ArrayV)
		if len(b.Path) != 0 {
			st.unsupported("slicing an array embedded in another object")
		}
		l, h, m := 0, len(arr.E), len(arr.E)
		if lo != nil {
			l = st.concreteInt(lo, "slice low")
		}
		if hi != nil {
			h = st.concreteInt(hi, "slice high")
		}
		if mx != nil {
			m = st.concreteInt(mx, "slice max")
		}
		if l < 0 || h < l || m < h || m > len(arr.E) {
			st.throwRuntime("slice", "slice bounds out of range")
		}
		return &SliceV{Obj: b.Obj, Off: l, Len: h - l, Cap: m - l}
	}
	st.unsupported("Slice on %T", base)
	return nil
}

func (st *State) sliceElems(s *SliceV) []Value {
	if s.Obj == nil {
		return nil
	}
	arr := st.get(s.Obj).(*ArrayV)
	return arr.E[s.Off : s.Off+s.Len]
}

func (st *State) rangeInit(v Value) Value {
	switch x := v.(type) {
	case *MapV:
		k, vals := st.liveEntries(x)
		return &RangeIter{Keys: k, Vals: vals}
	case *Term:
		return &RangeIter{Str: x}
	}
	st.unsupported("range over %T", v)
	return nil
}

func (st *State) rangeNext(it *RangeIter, x *ssa.Next) Value {
	if it.Str != nil && it.Str.Const {
		// a constant string: its runes and their byte positions (it.Pos is a byte position here)
		if it.Pos >= len(it.Str.CS) {
			return TupleV{FalseT, st.E.intTerm(big.NewInt(0), types.Typ[types.Int]), st.E.intTerm(big.NewInt(0), types.Typ[types.Int32])}
		}
		r, w := utf8.DecodeRuneInString(it.Str.CS[it.Pos:])
		pos := it.Pos
		it.Pos += w
		return TupleV{TrueT, st.E.intTerm(big.NewInt(int64(pos)), types.Typ[types.Int]), st.E.intTerm(big.NewInt(int64(r)), types.Typ[types.Int32])}
	}
	if it.Str != nil {
		// ASCII strings: one byte per rune
		n := st.strLen(it.Str)
		i := IntT64(int64(it.Pos))
		if !st.Branch(IntLt(i, n)) {
			return TupleV{FalseT, st.E.intTerm(big.NewInt(0), types.Typ[types.Int]), st.E.intTerm(big.NewInt(0), types.Typ[types.Int32])}
		}
		c := StrAtCode(it.Str, i)
		it.Pos++
		return TupleV{TrueT, st.fromMathInt(i, types.Typ[types.Int]), st.fromMathInt(c, types.Typ[types.Int32])}
	}
	tt := x.Type().(*types.Tuple)
	if it.Pos >= len(it.Keys) {
		return TupleV{FalseT, st.zeroOrNil(tt.At(1).Type()), st.zeroOrNil(tt.At(2).Type())}
	}
	k, v := it.Keys[it.Pos], it.Vals[it.Pos]
	it.Pos++
	return TupleV{TrueT, k, v}
}

func (st *State) zeroOrNil(t types.Type) Value {
	if b, ok := t.(*types.Basic); ok && b.Kind() == types.Invalid {
		return nil
	}
	return st.E.Zero(t)
}

// ---- calls ----

func (st *State) prepareCall(fr *frame, c *ssa.CallCommon) (Value, []Value) {
	args := st.vals(fr, c.Args)
	if c.IsInvoke() {
		recv := st.val(fr, c.Value)
		iv, ok := recv.(*IfaceV)
		if !ok {
			st.unsupported("invoke on %T", recv)
		}
		if iv.T == nil {
			st.throwRuntime("nil", "method call on nil interface")
		}
		fv := st.E.resolveMethod(st, iv, c.Method)
		return fv, append([]Value{iv.V}, args...)
	}
	switch f := c.Value.(type) {
	case *ssa.Builtin:
		return f, args
	case *ssa.Function:
		return &FuncV{Fn: f}, args
	}
	v := st.val(fr, c.Value)
	fv, ok := v.(*FuncV)
	if !ok {
		st.unsupported("call of %T", v)
	}
	return fv, args
}

func (st *State) doCall(fr *frame, c *ssa.CallCommon, site *ssa.Call) Value {
	fnv, args := st.prepareCall(fr, c)
	switch f := fnv.(type) {
	case *ssa.Builtin:
		return st.builtin(fr, f, args, c)
	case *FuncV:
		return st.Call(f, args, nil)
	}
	st.unsupported("call target %T", fnv)
	return nil
}

func (st *State) builtin(fr *frame, b *ssa.Builtin, args []Value, c *ssa.CallCommon) Value {
	intT := types.Typ[types.Int]
	switch b.Name() {
	case "len":
		switch x := args[0].(type) {
		case *Term:
			return st.fromMathInt(st.strLen(x), intT)
		case *SliceV:
			return st.E.intTerm(big.NewInt(int64(x.Len)), intT)
		case *ArrayV:
			return st.E.intTerm(big.NewInt(int64(len(x.E))), intT)
		case *MapV:
			k, _ := st.liveEntries(x)
			return st.E.intTerm(big.NewInt(int64(len(k))), intT)
		case *PtrV:
			arr := st.load(x).(*ArrayV)
			return st.E.intTerm(big.NewInt(int64(len(arr.E))), intT)
		case *ChanV:
			return st.E.intTerm(big.NewInt(0), intT)
		}
	case "cap":
		switch x := args[0].(type) {
		case *SliceV:
			return st.E.intTerm(big.NewInt(int64(x.Cap)), intT)
		case *ArrayV:
			return st.E.intTerm(big.NewInt(int64(len(x.E))), intT)
		}
	case "append":
		s := args[0].(*SliceV)
		var add []Value
		switch a := args[1].(type) {
		case *SliceV:
			add = st.sliceElems(a)
		case *Term:
			if !a.Const || a.Sort != SString {
				st.unsupported("append(bytes, symbolic string...)")
			}
			for i := 0; i < len(a.CS); i++ {
				add = append(add, st.E.intTerm(big.NewInt(int64(a.CS[i])), types.Typ[types.Uint8]))
			}
		}
		if len(add) == 0 {
			return s
		}
		nl := s.Len + len(add)
		if s.Obj != nil && nl <= s.Cap {
			arr := st.get(s.Obj).(*ArrayV)
			ne := append([]Value(nil), arr.E...)
			copy(ne[s.Off+s.Len:], add)
			st.set(s.Obj, &ArrayV{E: ne})
			return &SliceV{Obj: s.Obj, Off: s.Off, Len: nl, Cap: s.Cap}
		}
		ne := make([]Value, nl)
		copy(ne, st.sliceElems(s))
		copy(ne[s.Len:], add)
		var et types.Type
		if c != nil {
			et = c.Args[0].Type().Underlying().(*types.Slice).Elem()
		}
		o := st.newObject(et, "append", &ArrayV{E: ne})
		return &SliceV{Obj: o, Len: nl, Cap: nl}
	case "copy":
		d := args[0].(*SliceV)
		src, ok := args[1].(*SliceV)
		if !ok {
			st.unsupported("copy from %T", args[1])
		}
		n := d.Len
		if src.Len < n {
			n = src.Len
		}
		if n > 0 {
			se := append([]Value(nil), st.sliceElems(src)[:n]...)
			arr := st.get(d.Obj).(*ArrayV)
			ne := append([]Value(nil), arr.E...)
			copy(ne[d.Off:], se)
			st.set(d.Obj, &ArrayV{E: ne})
		}
		return st.E.intTerm(big.NewInt(int64(n)), intT)
	case "delete":
		st.mapDelete(args[0], args[1])
		return nil
	case "recover":
		p := fr.deferOf
		if p != nil && p.panicking != nil && !p.recovered {
			if st.E.Trace {
				fmt.Fprintf(os.Stderr, "  recover() in %s catches %s: %s %s\n", fr.fn, p.panicking.Kind, p.panicking.Detail, showValue(p.panicking.Val))
			}
			p.recovered = true
			v := p.panicking.Val
			if v == nil {
				v = &IfaceV{}
			}
			return v
		}
		return &IfaceV{}
	case "print", "println":
		return nil
	case "close":
		st.E.chanClose(st, args[0])
		return nil
	case "min", "max":
		if len(args) == 2 {
			a, bb := args[0].(*Term), args[1].(*Term)
			t := c.Args[0].Type()
			lt := st.binop(token.LSS, a, bb, t, t).(*Term)
			if b.Name() == "min" {
				return Ite(lt, a, bb)
			}
			return Ite(lt, bb, a)
		}
	case "real":
		return args[0].(*StructV).F[0]
	case "imag":
		return args[0].(*StructV).F[1]
	case "complex":
		return &StructV{F: []Value{args[0], args[1]}}
	case "ssa:wrapnilchk":
		if p, ok := args[0].(*PtrV); ok && p.Obj == nil {
			st.throwRuntime("nil", "value method called using nil pointer")
		}
		return args[0]
	}
	st.unsupported("builtin %s(%T)", b.Name(), args[0])
	return nil
}
