package sym

import (
	"fmt"
	"go/token"
	"go/types"
	"math/big"
	"os"
	"sort"
	"strconv"
	"strings"
	"unicode"
)

func constStr(st *State, v Value, what string) string {
	t, ok := v.(*Term)
	if !ok || !t.Const || t.Sort != SString {
		st.unsupported("%s must be a constant string", what)
	}
	return t.CS
}

func (st *State) nondet(label, kind string, t types.Type) Value {
	v := st.FreshValue(label, t)
	if tm, ok := v.(*Term); ok {
		st.nondets = append(st.nondets, NondetRec{Label: label, Name: tm.S, Sort: tm.Sort, W: tm.W, Kind: kind})
	}
	return v
}

// registerIntrinsics installs the harness vocabulary (functions of the
// harness overlay whose names start with "v").
func registerIntrinsics(e *Engine) {
	I := e.Intrinsics
	basic := func(k types.BasicKind) types.Type { return types.Typ[k] }
	nd := func(kind string, t types.Type) HookFn {
		return func(st *State, a []Value) Value {
			return st.nondet(constStr(st, a[0], "nondet label"), kind, t)
		}
	}
	I["vNondetInt"] = nd("int", basic(types.Int))
	I["vNondetInt64"] = nd("int64", basic(types.Int64))
	I["vNondetInt32"] = nd("int32", basic(types.Int32))
	I["vNondetInt16"] = nd("int16", basic(types.Int16))
	I["vNondetInt8"] = nd("int8", basic(types.Int8))
	I["vNondetUint"] = nd("uint", basic(types.Uint))
	I["vNondetUint64"] = nd("uint64", basic(types.Uint64))
	I["vNondetUint32"] = nd("uint32", basic(types.Uint32))
	I["vNondetUint16"] = nd("uint16", basic(types.Uint16))
	I["vNondetUint8"] = nd("uint8", basic(types.Uint8))
	I["vNondetBool"] = nd("bool", basic(types.Bool))
	I["vNondetFloat64"] = nd("float64", basic(types.Float64))
	I["vNondetFloat32"] = nd("float32", basic(types.Float32))
	I["vNondetString"] = func(st *State, a []Value) Value {
		s := st.nondet(constStr(st, a[0], "nondet label"), "string", basic(types.String)).(*Term)
		// all symbolic strings are ASCII so that byte and code point views agree
		st.assertTerm(mk(SBool, 0, "(str.in_re %s (re.* (re.range \"\\u{0}\" \"\\u{7f}\")))", s.S))
		return s
	}
	// vNondetWord(label, charset, maxlen): a string over the given bytes; the
	// engine remembers the charset so that splitting on other bytes is free.
	I["vNondetWord"] = func(st *State, a []Value) Value {
		label := constStr(st, a[0], "nondet label")
		cs := constStr(st, a[1], "charset")
		n := st.concreteInt(a[2], "max length")
		s := st.FreshTerm(label, SString, 0)
		st.nondets = append(st.nondets, NondetRec{Label: label, Name: s.S, Sort: SString, Kind: "string"})
		st.assertTerm(mk(SBool, 0, "(str.in_re %s (re.* %s))", s.S, charsetRe(cs)))
		st.assertTerm(IntLe(StrLen(s), IntT64(int64(n))))
		st.charset[s.S] = cs
		st.maxlen[s.S] = n
		return s
	}
	I["vCallMade"] = func(st *State, a []Value) Value {
		v, ok := a[0].(*RVal)
		if !ok {
			st.unsupported("vCallMade on %T", a[0])
		}
		fv, ok := st.rpayload(v).(*FuncV)
		if !ok {
			st.unsupported("vCallMade: value does not hold a MakeFunc closure")
		}
		if fv.Made != nil {
			// the body itself, which takes the arguments as []reflect.Value
			body := *fv
			body.Made = nil
			fv = &body
		}
		return st.Call(fv, []Value{a[1]}, nil)
	}
	I["vNondetWordN"] = func(st *State, a []Value) Value {
		label := constStr(st, a[0], "nondet label")
		cs := constStr(st, a[1], "charset")
		lo := st.concreteInt(a[2], "min length")
		hi := st.concreteInt(a[3], "max length")
		s := st.FreshTerm(label, SString, 0)
		st.nondets = append(st.nondets, NondetRec{Label: label, Name: s.S, Sort: SString, Kind: "string"})
		st.assertTerm(mk(SBool, 0, "(str.in_re %s (re.* %s))", s.S, charsetRe(cs)))
		st.assertTerm(IntLe(StrLen(s), IntT64(int64(hi))))
		st.assertTerm(IntLe(IntT64(int64(lo)), StrLen(s)))
		st.charset[s.S] = cs
		st.maxlen[s.S] = hi
		st.minlen[s.S] = lo
		return s
	}
	// vPred(name, arg): an uninterpreted predicate over strings (e.g. the
	// directory tree); its interpretation is part of the counterexample.
	I["vPred"] = func(st *State, a []Value) Value {
		name := constStr(st, a[0], "predicate name")
		arg := a[1].(*Term)
		if !st.E.predDeclared[name] {
			st.E.predDeclared[name] = true
		}
		if !st.predDecl[name] {
			st.predDecl[name] = true
			st.E.Solver.Cmd(fmt.Sprintf("(declare-fun %s (String) Bool)", name))
			st.transcript = append(st.transcript, fmt.Sprintf("(declare-fun %s (String) Bool)", name))
		}
		st.preds = append(st.preds, predUse{Name: name, Arg: arg})
		return mk(SBool, 0, "(%s %s)", name, arg.S)
	}
	I["vNondetWordN"] = func(st *State, a []Value) Value {
		label := constStr(st, a[0], "nondet label")
		cs := constStr(st, a[1], "charset")
		lo := st.concreteInt(a[2], "min length")
		hi := st.concreteInt(a[3], "max length")
		s := st.FreshTerm(label, SString, 0)
		st.nondets = append(st.nondets, NondetRec{Label: label, Name: s.S, Sort: SString, Kind: "string"})
		st.assertTerm(mk(SBool, 0, "(str.in_re %s (re.* %s))", s.S, charsetRe(cs)))
		st.assertTerm(IntLe(StrLen(s), IntT64(int64(hi))))
		st.assertTerm(IntLe(IntT64(int64(lo)), StrLen(s)))
		st.charset[s.S] = cs
		st.maxlen[s.S] = hi
		st.minlen[s.S] = lo
		return s
	}
	I["vAssume"] = func(st *State, a []Value) Value {
		st.Assume(a[0].(*Term))
		return nil
	}
	I["vAssert"] = func(st *State, a []Value) Value {
		st.Assert(constStr(st, a[0], "assert id"), a[1].(*Term))
		return nil
	}
	I["vKnown"] = func(st *State, a []Value) Value {
		st.known = append(st.known, knownRegion{Name: constStr(st, a[0], "finding name"), Cond: a[1].(*Term)})
		return nil
	}
	I["vReach"] = func(st *State, a []Value) Value {
		id := constStr(st, a[0], "reach id")
		if st.E.Reached[id] == 0 {
			// vacuity witness: the point must be reachable with a satisfiable path condition
			if st.pathFeasible() {
				st.E.Reached[id]++
			}
		} else {
			st.E.Reached[id]++
		}
		return nil
	}
	I["vImplies"] = func(st *State, a []Value) Value { return Implies(a[0].(*Term), a[1].(*Term)) }
	I["vAnd"] = func(st *State, a []Value) Value { return And(a[0].(*Term), a[1].(*Term)) }
	I["vOr"] = func(st *State, a []Value) Value { return Or(a[0].(*Term), a[1].(*Term)) }
	I["vNot"] = func(st *State, a []Value) Value { return Not(a[0].(*Term)) }
	I["vIteInt"] = func(st *State, a []Value) Value { return Ite(a[0].(*Term), a[1].(*Term), a[2].(*Term)) }
	I["vIteString"] = I["vIteInt"]
	I["vIteBool"] = I["vIteInt"]
	// vInCharset(s, chars): every byte of s is one of chars
	I["vInCharset"] = func(st *State, a []Value) Value {
		s := a[0].(*Term)
		cs := constStr(st, a[1], "charset")
		if s.Const {
			for i := 0; i < len(s.CS); i++ {
				if !strings.Contains(cs, string(s.CS[i])) {
					return FalseT
				}
			}
			return TrueT
		}
		// structural: every part's alphabet is inside cs
		all := true
		for _, p := range strParts(s) {
			pc := p.CS
			if !p.Const {
				c, ok := st.charset[p.S]
				if !ok {
					all = false
					break
				}
				pc = c
			}
			for i := 0; i < len(pc); i++ {
				if !strings.Contains(cs, string(pc[i])) {
					all = false
				}
			}
		}
		if all {
			return TrueT
		}
		return mk(SBool, 0, "(str.in_re %s (re.* %s))", s.S, charsetRe(cs))
	}
	// vStrEq/vStrContains etc. as non-forking predicates
	I["vContains"] = func(st *State, a []Value) Value { return StrContains(a[0].(*Term), a[1].(*Term)) }
	I["vHasPrefix"] = func(st *State, a []Value) Value { return StrPrefixOf(a[1].(*Term), a[0].(*Term)) }
	I["vHasSuffix"] = func(st *State, a []Value) Value { return StrSuffixOf(a[1].(*Term), a[0].(*Term)) }
	I["vEvent"] = func(st *State, a []Value) Value {
		st.events = append(st.events, Event{Tag: constStr(st, a[0], "event tag"), Args: a[1:]})
		return nil
	}
	// trace inspection: number of recorded events whose tag starts with a prefix
	I["vEventCount"] = func(st *State, a []Value) Value {
		pre := constStr(st, a[0], "event prefix")
		n := 0
		for _, ev := range st.events {
			if strings.HasPrefix(ev.Tag, pre) {
				n++
			}
		}
		return st.E.intTerm(big.NewInt(int64(n)), types.Typ[types.Int])
	}
	// vEventArgIs(tag, k, v): argument k of the last event with that tag is identical to v
	I["vEventArgIs"] = func(st *State, a []Value) Value {
		tag := constStr(st, a[0], "event tag")
		k := st.concreteInt(a[1], "argument index")
		for i := len(st.events) - 1; i >= 0; i-- {
			ev := st.events[i]
			if ev.Tag != tag {
				continue
			}
			if k >= len(ev.Args) {
				return FalseT
			}
			want := a[2]
			if iv, ok := want.(*IfaceV); ok {
				if _, argIsIface := ev.Args[k].(*IfaceV); !argIsIface && iv.T != nil {
					want = iv.V // the argument was recorded at its static (non-interface) type
				}
			}
			return st.eqValues(ev.Args[k], want)
		}
		return FalseT
	}
	// vDebug(label, v): print the engine's view of a value (tracing aid)
	I["vDebug"] = func(st *State, a []Value) Value {
		if st.E.Trace {
			v := a[1]
			if iv, ok := v.(*IfaceV); ok && iv.T != nil {
				fmt.Fprintf(os.Stderr, "    vDebug %s: dynamic type %s value %s\n", showValue(a[0]), iv.T, st.showDeep(iv.V, 6))
			} else {
				fmt.Fprintf(os.Stderr, "    vDebug %s: %s\n", showValue(a[0]), st.showDeep(v, 3))
			}
		}
		return nil
	}
	// vRunGoroutines(): run the goroutines created so far by go statements, in
	// creation order (goroutines they create in turn included, up to 16).
	I["vRunGoroutines"] = func(st *State, a []Value) Value {
		for n := 0; len(st.pendingGo) > 0; n++ {
			if n >= 16 {
				st.abort("bound", "more than 16 goroutines")
			}
			g := st.pendingGo[0]
			st.pendingGo = st.pendingGo[1:]
			fv, ok := g.fn.(*FuncV)
			if !ok {
				st.unsupported("go statement on %T", g.fn)
			}
			st.Call(fv, g.args, nil)
		}
		return nil
	}
	// vWatchCaptured(f): from now on, every write to memory reachable from the
	// variables captured by closure f (not through frames or the interpreter)
	// is recorded as a "capwrite:" event. vWatchEnd() stops watching.
	I["vWatchCaptured"] = func(st *State, a []Value) Value {
		arg := a[0]
		if iv, ok := arg.(*IfaceV); ok {
			arg = iv.V
		}
		fv, ok := arg.(*FuncV)
		if !ok {
			st.unsupported("vWatchCaptured on %T", arg)
		}
		st.watch = map[*Object]bool{}
		var visit func(v Value, depth int)
		visit = func(v Value, depth int) {
			if depth > 12 {
				return
			}
			switch x := v.(type) {
			case *PtrV:
				if x.Obj == nil || st.watch[x.Obj] {
					return
				}
				if n, ok := x.Obj.Typ.(*types.Named); ok {
					nm := n.Obj().Name()
					if nm == "frame" || nm == "Interpreter" || nm == "itype" || nm == "scope" {
						return // per-activation or compile-time structures reached through the AST are not closure state
					}
				}
				st.watch[x.Obj] = true
				visit(st.get(x.Obj), depth+1)
			case *SliceV:
				if x.Obj == nil || st.watch[x.Obj] {
					return
				}
				st.watch[x.Obj] = true
				visit(st.get(x.Obj), depth+1)
			case *MapV:
				if x.Obj == nil || st.watch[x.Obj] {
					return
				}
				st.watch[x.Obj] = true
			case *StructV:
				for _, f := range x.F {
					visit(f, depth+1)
				}
			case *ArrayV:
				for _, f := range x.E {
					visit(f, depth+1)
				}
			case *IfaceV:
				visit(x.V, depth+1)
			case *RVal:
				if x.Ref != nil {
					visit(x.Ref, depth+1)
				}
				visit(x.Val, depth+1)
			case *FuncV:
				for _, e := range x.Env {
					visit(e, depth+1)
				}
			}
		}
		for _, e := range fv.Env {
			visit(e, 0)
		}
		return nil
	}
	I["vWatchEnd"] = func(st *State, a []Value) Value {
		st.watch = nil
		return nil
	}
	I["vSymbolic"] = func(st *State, a []Value) Value { return TrueT }
	I["vConcretizeInt"] = func(st *State, a []Value) Value {
		// fork so that the value becomes a constant in [lo,hi]
		x := a[0].(*Term)
		lo, hi := st.concreteInt(a[1], "lo"), st.concreteInt(a[2], "hi")
		m := st.mathInt(x, types.Typ[types.Int])
		if m.Const {
			return x
		}
		st.Assume(And(IntLe(IntT64(int64(lo)), m), IntLe(m, IntT64(int64(hi)))))
		for i := lo; i < hi; i++ {
			if st.Branch(Eq(m, IntT64(int64(i)))) {
				return st.E.intTerm(big.NewInt(int64(i)), types.Typ[types.Int])
			}
		}
		return st.E.intTerm(big.NewInt(int64(hi)), types.Typ[types.Int])
	}
}

func charsetRe(cs string) string {
	if len(cs) == 0 {
		return "re.none"
	}
	var present [256]bool
	for i := 0; i < len(cs); i++ {
		present[cs[i]] = true
	}
	var parts []string
	for c := 0; c < 256; c++ {
		if !present[c] {
			continue
		}
		d := c
		for d+1 < 256 && present[d+1] {
			d++
		}
		if d > c {
			parts = append(parts, "(re.range "+smtString(string([]byte{byte(c)}))+" "+smtString(string([]byte{byte(d)}))+")")
		} else {
			parts = append(parts, "(str.to_re "+smtString(string([]byte{byte(c)}))+")")
		}
		c = d
	}
	if len(parts) == 1 {
		return parts[0]
	}
	return "(re.union " + strings.Join(parts, " ") + ")"
}

// registerLibHooks installs solver-level summaries of library functions whose
// contract maps directly onto the SMT string theory, plus no-op models of
// synchronisation primitives (single-threaded execution).
func registerLibHooks(e *Engine) {
	H := e.Hooks
	intT := types.Typ[types.Int]
	H["strings.HasPrefix"] = func(st *State, a []Value) Value { return BoolT(st.hasPrefix(a[0].(*Term), a[1].(*Term))) }
	H["strings.HasSuffix"] = func(st *State, a []Value) Value { return BoolT(st.hasSuffix(a[0].(*Term), a[1].(*Term))) }
	H["strings.Contains"] = func(st *State, a []Value) Value { return StrContains(a[0].(*Term), a[1].(*Term)) }
	H["strings.ReplaceAll"] = func(st *State, a []Value) Value {
		s, o, n := a[0].(*Term), a[1].(*Term), a[2].(*Term)
		if s.Const && o.Const && n.Const {
			return StrT(strings.ReplaceAll(s.CS, o.CS, n.CS))
		}
		if o.Const && s.Const && !strings.Contains(s.CS, o.CS) {
			return s
		}
		st.unsupported("strings.ReplaceAll on symbolic strings")
		return nil
	}
	H["strings.Index"] = func(st *State, a []Value) Value {
		s, sep := a[0].(*Term), a[1].(*Term)
		if sep.Const && len(sep.CS) > 0 {
			found, h, _ := st.splitFirst(s, sep.CS)
			if !found {
				return st.E.intTerm(big.NewInt(-1), intT)
			}
			return st.fromMathInt(st.strLen(h), intT)
		}
		return st.fromMathInt(StrIndexOf(s, sep, IntT64(0)), intT)
	}
	H["strings.IndexByte"] = func(st *State, a []Value) Value {
		c := StrFromCode(st.mathInt(a[1].(*Term), types.Typ[types.Uint8]))
		return st.fromMathInt(StrIndexOf(a[0].(*Term), c, IntT64(0)), intT)
	}
	H["strings.TrimSuffix"] = func(st *State, a []Value) Value { return st.trimSuffix(a[0].(*Term), a[1].(*Term)) }
	H["strings.TrimPrefix"] = func(st *State, a []Value) Value { return st.trimPrefix(a[0].(*Term), a[1].(*Term)) }
	H["strings.TrimSpace"] = func(st *State, a []Value) Value {
		// relational summary: s = pre ++ r ++ post, pre/post all white space,
		// r neither starts nor ends with white space (ASCII white space set).
		s := a[0].(*Term)
		if s.Const {
			return StrT(strings.TrimSpace(s.CS))
		}
		if r, ok := st.trimSpace(s); ok {
			return r
		}
		ws := charsetRe(" \t\n\v\f\r")
		pre := st.FreshTerm("ts_pre", SString, 0)
		r := st.FreshTerm("ts_r", SString, 0)
		post := st.FreshTerm("ts_post", SString, 0)
		st.assertTerm(Eq(s, mk(SString, 0, "(str.++ %s %s %s)", pre.S, r.S, post.S)))
		st.assertTerm(mk(SBool, 0, "(str.in_re %s (re.* %s))", pre.S, ws))
		st.assertTerm(mk(SBool, 0, "(str.in_re %s (re.* %s))", post.S, ws))
		st.assertTerm(mk(SBool, 0, "(not (str.in_re %s (re.++ %s re.all)))", r.S, ws))
		st.assertTerm(mk(SBool, 0, "(not (str.in_re %s (re.++ re.all %s)))", r.S, ws))
		return r
	}
	// strings.Split(s, sep) for constant non-empty sep: fork on the number of parts.
	H["strings.Split"] = func(st *State, a []Value) Value {
		s, sep := a[0].(*Term), a[1].(*Term)
		if !sep.Const || len(sep.CS) == 0 {
			st.unsupported("strings.Split with symbolic or empty separator")
		}
		var parts []Value
		rest := s
		for k := 0; ; k++ {
			if k > st.E.MaxUnroll {
				st.abort("bound", fmt.Sprintf("strings.Split: more than %d parts", st.E.MaxUnroll))
			}
			found, h, t := st.splitFirst(rest, sep.CS)
			if !found {
				parts = append(parts, rest)
				break
			}
			parts = append(parts, h)
			rest = t
		}
		o := st.newObject(types.NewArray(types.Typ[types.String], int64(len(parts))), "split", &ArrayV{E: parts})
		return &SliceV{Obj: o, Len: len(parts), Cap: len(parts)}
	}
	// path.Base / filepath.Base for '/'-separated names (Unix), per documentation.
	base := func(st *State, a []Value) Value {
		s := a[0].(*Term)
		if s.Const {
			return StrT(pathBase(s.CS))
		}
		if st.cannotContain(s, "/") {
			for _, p := range strParts(s) {
				if p.Const && p.CS != "" {
					return s
				}
			}
			if st.Branch(Eq(s, StrT(""))) {
				return StrT(".")
			}
			return s
		}
		// documented contract, restricted to names without '/' handled exactly;
		// names with '/' fork.
		if st.Branch(Eq(s, StrT(""))) {
			return StrT(".")
		}
		if !st.Branch(StrContains(s, StrT("/"))) {
			return s
		}
		// strip trailing slashes (bounded), then take the part after the last '/'
		r := st.FreshTerm("base", SString, 0)
		pre := st.FreshTerm("base_pre", SString, 0)
		post := st.FreshTerm("base_post", SString, 0)
		st.assertTerm(Eq(s, mk(SString, 0, "(str.++ %s %s %s)", pre.S, r.S, post.S)))
		st.assertTerm(mk(SBool, 0, "(str.in_re %s (re.* (str.to_re \"/\")))", post.S))
		st.assertTerm(Not(StrContains(r, StrT("/"))))
		st.assertTerm(Or(Eq(pre, StrT("")), StrSuffixOf(StrT("/"), pre)))
		if st.Branch(Eq(r, StrT(""))) {
			// s consists only of slashes
			return StrT("/")
		}
		return r
	}
	H["path.Base"] = base
	H["path/filepath.Base"] = base
	H["strconv.Itoa"] = func(st *State, a []Value) Value {
		x := st.mathInt(a[0].(*Term), intT)
		if x.Const {
			return StrT(x.CI.String())
		}
		neg := IntLt(x, IntT64(0))
		abs := Ite(neg, IntNeg(x), x)
		return Ite(neg, StrConcat(StrT("-"), mk(SString, 0, "(str.from_int %s)", abs.S)), mk(SString, 0, "(str.from_int %s)", abs.S))
	}
	// strconv.Atoi: decimal digits with optional sign (underscore forms are
	// rejected for base 10); values that fit in int64 only.
	H["strconv.Atoi"] = func(st *State, a []Value) Value {
		s := a[0].(*Term)
		errT := st.E.strconvErrType()
		mkErr := func() Value { return &IfaceV{T: errT, V: &OpaqueV{Name: "strconv.NumError", ID: 1}} }
		digits := "(re.+ (re.range \"0\" \"9\"))"
		isNum := mk(SBool, 0, "(str.in_re %s (re.++ (re.opt (re.union (str.to_re \"+\") (str.to_re \"-\"))) %s))", s.S, digits)
		if st.cannotContain(s, "+") && st.cannotContain(s, "-") {
			isNum = mk(SBool, 0, "(str.in_re %s %s)", s.S, digits)
			if onlyDigits(st, s) {
				isNum = Not(Eq(s, StrT("")))
			}
		}
		if s.Const {
			isNum = BoolT(isDecimal(s.CS))
		}
		if !st.Branch(isNum) {
			return TupleV{st.E.intTerm(big.NewInt(0), intT), mkErr()}
		}
		var val *Term
		signless := st.cannotContain(s, "+") && st.cannotContain(s, "-")
		switch {
		case s.Const:
			v, _ := new(big.Int).SetString(strings.TrimPrefix(s.CS, "+"), 10)
			val = IntT(v)
		case signless:
			val = mk(SInt, 0, "(str.to_int %s)", s.S)
			val.Lo = big.NewInt(0)
			if ml, ok := st.strMaxLen(s); ok && ml <= 18 {
				val.Hi = new(big.Int).Exp(big.NewInt(10), big.NewInt(int64(ml)), nil)
			}
		default:
			neg := StrPrefixOf(StrT("-"), s)
			sign := Or(neg, StrPrefixOf(StrT("+"), s))
			body := Ite(sign, StrSubstr(s, IntT64(1), StrLen(s)), s)
			mag := mk(SInt, 0, "(str.to_int %s)", body.S)
			val = Ite(neg, IntNeg(mag), mag)
		}
		lo, hi := intRange(64, true)
		if st.Branch(Or(IntLt(val, IntT(lo)), IntLt(IntT(hi), val))) {
			// out of range: Atoi returns the clamped value and an error
			return TupleV{st.fromMathInt(Ite(IntLt(val, IntT(lo)), IntT(lo), IntT(hi)), intT), mkErr()}
		}
		return TupleV{st.fromMathInt(val, intT), &IfaceV{}}
	}
	// unicode predicates on ASCII code points (all symbolic strings are ASCII)
	inRanges := func(st *State, v Value, rs ...[2]int64) *Term {
		c := st.mathInt(v.(*Term), types.Typ[types.Int32])
		var alts []*Term
		for _, r := range rs {
			if r[0] == r[1] {
				alts = append(alts, Eq(c, IntT64(r[0])))
			} else {
				alts = append(alts, And(IntLe(IntT64(r[0]), c), IntLe(c, IntT64(r[1]))))
			}
		}
		return Or(alts...)
	}
	H["unicode.IsSpace"] = func(st *State, a []Value) Value {
		return inRanges(st, a[0], [2]int64{9, 13}, [2]int64{32, 32})
	}
	H["unicode.IsLetter"] = func(st *State, a []Value) Value {
		return inRanges(st, a[0], [2]int64{'A', 'Z'}, [2]int64{'a', 'z'})
	}
	H["unicode.IsDigit"] = func(st *State, a []Value) Value {
		return inRanges(st, a[0], [2]int64{'0', '9'})
	}
	// ASCII model (symbolic runes are ASCII in every harness; a constant rune is decided exactly)
	H["unicode.IsUpper"] = func(st *State, a []Value) Value {
		if t, ok := a[0].(*Term); ok && t.Const && t.CI != nil && t.CI.IsInt64() {
			return BoolT(unicode.IsUpper(rune(t.CI.Int64())))
		}
		return inRanges(st, a[0], [2]int64{'A', 'Z'})
	}
	H["unicode.IsLower"] = func(st *State, a []Value) Value {
		if t, ok := a[0].(*Term); ok && t.Const && t.CI != nil && t.CI.IsInt64() {
			return BoolT(unicode.IsLower(rune(t.CI.Int64())))
		}
		return inRanges(st, a[0], [2]int64{'a', 'z'})
	}
	// strings.IndexFunc(s, f) for a pure predicate f: f is evaluated concretely
	// on every ASCII code point; "no rune satisfies f" becomes a regular
	// membership. Only the sign of the result is exact for symbolic s (the
	// index itself is a fresh value in [0,len(s)) ).
	H["strings.IndexFunc"] = func(st *State, a []Value) Value {
		s := a[0].(*Term)
		f := a[1].(*FuncV)
		var rejects []byte // bytes for which f is false
		accAll := true
		sat := [128]bool{}
		for c := 0; c < 128; c++ {
			r := st.Call(f, []Value{st.E.intTerm(big.NewInt(int64(c)), types.Typ[types.Int32])}, nil)
			t, ok := r.(*Term)
			if !ok || !t.Const {
				st.unsupported("strings.IndexFunc with a predicate that is not concrete on concrete runes")
			}
			sat[c] = t.CB
			if !t.CB {
				rejects = append(rejects, byte(c))
			} else {
				accAll = false
			}
		}
		_ = accAll
		if s.Const {
			for i := 0; i < len(s.CS); i++ {
				if s.CS[i] < 128 && sat[s.CS[i]] {
					return st.E.intTerm(big.NewInt(int64(i)), intT)
				}
			}
			return st.E.intTerm(big.NewInt(-1), intT)
		}
		// structural: every part's alphabet avoids the satisfying set
		none := true
		for _, p := range strParts(s) {
			var cs string
			if p.Const {
				cs = p.CS
			} else if c, ok := st.charset[p.S]; ok {
				cs = c
			} else {
				none = false
				break
			}
			for i := 0; i < len(cs); i++ {
				if cs[i] < 128 && sat[cs[i]] {
					none = false
				}
			}
		}
		if none {
			return st.E.intTerm(big.NewInt(-1), intT)
		}
		noneT := mk(SBool, 0, "(str.in_re %s (re.* %s))", s.S, charsetRe(string(rejects)))
		if st.Branch(noneT) {
			return st.E.intTerm(big.NewInt(-1), intT)
		}
		idx := st.FreshTerm("indexfunc", SInt, 0)
		st.assertTerm(And(IntLe(IntT64(0), idx), IntLt(idx, st.strLen(s))))
		idx.Lo = big.NewInt(0)
		return st.fromMathInt(idx, intT)
	}
	// strings.Fields over alphabets whose only white space is ' '
	H["strings.Fields"] = func(st *State, a []Value) Value {
		s := a[0].(*Term)
		for _, w := range []string{"\t", "\n", "\v", "\f", "\r"} {
			if !s.Const && !st.cannotContain(s, w) {
				st.unsupported("strings.Fields on a string that may contain white space other than ' '")
			}
		}
		if s.Const {
			var parts []Value
			for _, f := range strings.Fields(s.CS) {
				parts = append(parts, StrT(f))
			}
			o := st.newObject(types.NewArray(types.Typ[types.String], int64(len(parts))), "fields", &ArrayV{E: parts})
			return &SliceV{Obj: o, Len: len(parts), Cap: len(parts)}
		}
		var parts []Value
		rest := s
		for k := 0; ; k++ {
			if k > st.E.MaxUnroll+4 {
				st.abort("bound", "strings.Fields: too many fields")
			}
			found, h, t := st.splitFirst(rest, " ")
			piece := rest
			if found {
				piece = h
			}
			if !st.Branch(Eq(piece, StrT(""))) {
				parts = append(parts, piece)
			}
			if !found {
				break
			}
			rest = t
		}
		if len(parts) == 0 {
			return &SliceV{}
		}
		o := st.newObject(types.NewArray(types.Typ[types.String], int64(len(parts))), "fields", &ArrayV{E: parts})
		return &SliceV{Obj: o, Len: len(parts), Cap: len(parts)}
	}
	// synchronisation primitives: single-threaded model. The lock state is
	// tracked per lock object: acquiring a lock that is held can never succeed
	// with one goroutine - the path ends as a deadlock (reported as a violation
	// of the implicit obligation <harness>.deadlock).
	noop := func(st *State, a []Value) Value { return nil }
	for _, n := range []string{"(*sync.WaitGroup).Add", "(*sync.WaitGroup).Done", "(*sync.WaitGroup).Wait"} {
		name := n
		H[name] = func(st *State, a []Value) Value {
			st.events = append(st.events, Event{Tag: name, Args: a})
			return noop(st, a)
		}
	}
	lockKey := func(v Value) string {
		p, ok := v.(*PtrV)
		if !ok || p.Obj == nil {
			return "lock:nil"
		}
		return fmt.Sprintf("lock:%d:%v", p.Obj.ID, p.Path)
	}
	held := func(st *State, k string) int {
		if t, ok := st.scratch[k].(*Term); ok && t.Const && t.CI != nil {
			return int(t.CI.Int64())
		}
		return 0
	}
	set := func(st *State, k string, n int) { st.scratch[k] = IntT64(int64(n)) }
	mkLock := func(name string, f func(st *State, k string)) {
		H[name] = func(st *State, a []Value) Value {
			st.events = append(st.events, Event{Tag: name, Args: a})
			f(st, lockKey(a[0]))
			return nil
		}
	}
	// sync.Pool: the pool keeps what is put into it and hands it back last-in first-out (one of
	// the behaviours the documentation allows, and the usual one); New is called on an empty pool
	H["(*sync.Pool).Put"] = func(st *State, a []Value) Value {
		k := "pool:" + lockKey(a[0])
		cur, _ := st.scratch[k].(TupleV)
		st.scratch[k] = append(append(TupleV{}, cur...), a[1])
		return nil
	}
	H["(*sync.Pool).Get"] = func(st *State, a []Value) Value {
		k := "pool:" + lockKey(a[0])
		if cur, _ := st.scratch[k].(TupleV); len(cur) > 0 {
			st.scratch[k] = append(TupleV{}, cur[:len(cur)-1]...)
			return cur[len(cur)-1]
		}
		// the New field (second field of sync.Pool after noCopy/local...): read through the object
		p, ok := a[0].(*PtrV)
		if !ok || p.Obj == nil {
			st.throwRuntime("nil", "nil sync.Pool")
		}
		if sv, ok := st.load(p).(*StructV); ok {
			for _, f := range sv.F {
				if fv, ok := f.(*FuncV); ok && !fv.IsNil() {
					return st.Call(fv, nil, nil)
				}
			}
		}
		return &IfaceV{}
	}
	mkLock("(*sync.Mutex).Lock", func(st *State, k string) {
		if held(st, k+":w") != 0 {
			st.abort("deadlock", "Lock of a sync.Mutex that is already held (single goroutine)")
		}
		set(st, k+":w", 1)
	})
	mkLock("(*sync.Mutex).Unlock", func(st *State, k string) {
		if held(st, k+":w") == 0 {
			st.throwRuntime("fatal", "sync: unlock of unlocked mutex")
		}
		set(st, k+":w", 0)
	})
	mkLock("(*sync.RWMutex).Lock", func(st *State, k string) {
		if held(st, k+":w") != 0 || held(st, k+":r") != 0 {
			st.abort("deadlock", "Lock of a sync.RWMutex that is already held (single goroutine)")
		}
		set(st, k+":w", 1)
	})
	mkLock("(*sync.RWMutex).Unlock", func(st *State, k string) {
		if held(st, k+":w") == 0 {
			st.throwRuntime("fatal", "sync: Unlock of unlocked RWMutex")
		}
		set(st, k+":w", 0)
	})
	mkLock("(*sync.RWMutex).RLock", func(st *State, k string) {
		if held(st, k+":w") != 0 {
			st.abort("deadlock", "RLock of a sync.RWMutex that is write-locked (single goroutine)")
		}
		set(st, k+":r", held(st, k+":r")+1)
	})
	mkLock("(*sync.RWMutex).RUnlock", func(st *State, k string) {
		if held(st, k+":r") == 0 {
			st.throwRuntime("fatal", "sync: RUnlock of unlocked RWMutex")
		}
		set(st, k+":r", held(st, k+":r")-1)
	})
	// strings.Builder: the content is kept as a string term per builder object
	sbKey := func(v Value) string {
		p, ok := v.(*PtrV)
		if !ok || p.Obj == nil {
			return "sb:nil"
		}
		return fmt.Sprintf("sb:%d:%v", p.Obj.ID, p.Path)
	}
	sbGet := func(st *State, k string) *Term {
		if t, ok := st.scratch[k].(*Term); ok {
			return t
		}
		return StrT("")
	}
	intRes := func(st *State, n *Term) Value {
		return TupleV{st.fromMathInt(n, types.Typ[types.Int]), &IfaceV{}}
	}
	H["(*strings.Builder).WriteString"] = func(st *State, a []Value) Value {
		k := sbKey(a[0])
		s := a[1].(*Term)
		st.scratch[k] = StrConcat(sbGet(st, k), s)
		return intRes(st, st.strLen(s))
	}
	H["(*strings.Builder).WriteByte"] = func(st *State, a []Value) Value {
		k := sbKey(a[0])
		c, ok := a[1].(*Term)
		if !ok || !c.Const {
			st.unsupported("strings.Builder.WriteByte of a symbolic byte")
		}
		st.scratch[k] = StrConcat(sbGet(st, k), StrT(string([]byte{byte(c.CI.Int64())})))
		return &IfaceV{}
	}
	H["(*strings.Builder).WriteRune"] = func(st *State, a []Value) Value {
		k := sbKey(a[0])
		c, ok := a[1].(*Term)
		if !ok || !c.Const {
			st.unsupported("strings.Builder.WriteRune of a symbolic rune")
		}
		r := string(rune(c.CI.Int64()))
		st.scratch[k] = StrConcat(sbGet(st, k), StrT(r))
		return intRes(st, IntT64(int64(len(r))))
	}
	H["(*strings.Builder).String"] = func(st *State, a []Value) Value { return sbGet(st, sbKey(a[0])) }
	H["(*strings.Builder).Len"] = func(st *State, a []Value) Value {
		return st.fromMathInt(st.strLen(sbGet(st, sbKey(a[0]))), types.Typ[types.Int])
	}
	H["(*strings.Builder).Reset"] = func(st *State, a []Value) Value { st.scratch[sbKey(a[0])] = StrT(""); return nil }
	H["(*strings.Builder).Grow"] = func(st *State, a []Value) Value { return nil }
	H["sort.Strings"] = func(st *State, a []Value) Value {
		sl, ok := a[0].(*SliceV)
		if !ok || sl.Obj == nil {
			return nil
		}
		el := st.sliceElems(sl)
		var ss []string
		for _, e := range el {
			t, ok := e.(*Term)
			if !ok || !t.Const {
				// symbolic contents: recorded as an opaque call, the slice is left as it is
				// (harnesses that sort symbolic strings compare them as sets)
				st.events = append(st.events, Event{Tag: "opaque:sort.Strings", Args: a})
				return nil
			}
			ss = append(ss, t.CS)
		}
		sort.Strings(ss)
		for i, x := range ss {
			st.store(&PtrV{Obj: sl.Obj, Path: []int{sl.Off + i}}, StrT(x))
		}
		return nil
	}
	H["sync/atomic.LoadUint64"] = func(st *State, a []Value) Value {
		if h := st.E.Hooks["@atomic-load"]; h != nil {
			h(st, a)
		}
		return st.load(a[0].(*PtrV))
	}
	H["sync/atomic.StoreUint64"] = func(st *State, a []Value) Value { st.store(a[0].(*PtrV), a[1]); return nil }
	H["sync/atomic.AddUint64"] = func(st *State, a []Value) Value {
		p := a[0].(*PtrV)
		t := types.Typ[types.Uint64]
		nv := st.binop(token.ADD, st.load(p), a[1], t, t)
		st.store(p, nv)
		return nv
	}
	// minimal reflect model for code that only passes Values around:
	// a Value is the struct {typ, ptr, flag}; ptr stashes the engine value.
	rv := func(typ Value, payload Value, flag int64) Value {
		return &StructV{F: []Value{typ, payload, st0IntTerm(flag)}}
	}
	H["reflect.ValueOf"] = func(st *State, a []Value) Value {
		iv, _ := a[0].(*IfaceV)
		if iv == nil || iv.T == nil {
			return st.E.Zero(st.E.reflectValueType())
		}
		return rv(&PtrV{Obj: st.newObject(nil, "rtype", &StructV{})}, iv.V, int64(reflectKindOf(iv.T)))
	}
	H["(reflect.Value).Kind"] = func(st *State, a []Value) Value {
		v := a[0].(*StructV)
		f, ok := v.F[2].(*Term)
		if ok && f.Const {
			return st.E.intTerm(new(big.Int).And(f.CI, big.NewInt(31)), types.Typ[types.Uint])
		}
		st.unsupported("Kind on a symbolic reflect.Value")
		return nil
	}
	H["reflect.TypeOf"] = func(st *State, a []Value) Value {
		st.E.objCtr++
		return &IfaceV{T: opaqueDyn, V: &OpaqueV{Name: "reflect.Type", ID: st.E.objCtr}}
	}
	H["reflect.MakeFunc"] = func(st *State, a []Value) Value {
		return rv(&PtrV{Obj: st.newObject(nil, "rtype", &StructV{})}, a[1], 19)
	}
	H["(reflect.Value).IsValid"] = func(st *State, a []Value) Value {
		v := a[0].(*StructV)
		f, ok := v.F[2].(*Term)
		if ok && f.Const {
			return BoolT(f.CI.Sign() != 0)
		}
		st.unsupported("IsValid on a symbolic reflect.Value")
		return nil
	}
	H["(reflect.Value).Pointer"] = func(st *State, a []Value) Value {
		v := a[0].(*StructV)
		if fv, ok := v.F[1].(*FuncV); ok {
			if fv.IsNil() || fv.Fn == nil {
				return st.E.intTerm(big.NewInt(0), types.Typ[types.Uintptr])
			}
			// the code pointer: one per function (literal), shared by all its closures
			id := int64(1000000 + st.E.fnIndex(fv.Fn.String()))
			return st.E.intTerm(big.NewInt(id), types.Typ[types.Uintptr])
		}
		st.unsupported("reflect.Value.Pointer on %T", v.F[1])
		return nil
	}
	// os.Expand on a constant pattern: the real os.Expand drives the parsing, the
	// mapping function is the (symbolic) callee.
	H["os.Expand"] = func(st *State, a []Value) Value {
		pat := a[0].(*Term)
		if !pat.Const {
			st.unsupported("os.Expand with a symbolic pattern")
		}
		fv := a[1].(*FuncV)
		var parts []*Term
		res := os.Expand(pat.CS, func(name string) string {
			r := st.Call(fv, []Value{StrT(name)}, nil).(*Term)
			parts = append(parts, r)
			return fmt.Sprintf("\x00%d\x00", len(parts)-1)
		})
		out := StrT("")
		for _, seg := range strings.Split(res, "\x00") {
			out2 := out
			if n, err := strconv.Atoi(seg); err == nil && len(seg) > 0 && n < len(parts) && strings.Contains(res, "\x00"+seg+"\x00") {
				out2 = StrConcat(out, parts[n])
			} else {
				out2 = StrConcat(out, StrT(seg))
			}
			out = out2
		}
		return out
	}
	H["math.Signbit"] = func(st *State, a []Value) Value {
		x := a[0].(*Term)
		return mk(SBool, 0, "(fp.isNegative %s)", x.S)
	}
	H["math.IsNaN"] = func(st *State, a []Value) Value {
		x := a[0].(*Term)
		return mk(SBool, 0, "(fp.isNaN %s)", x.S)
	}
	H["runtime.Callers"] = func(st *State, a []Value) Value { return st.E.intTerm(big.NewInt(0), intT) }
	H["runtime/debug.Stack"] = func(st *State, a []Value) Value { return &SliceV{} }
	H["(*go/token.FileSet).Position"] = func(st *State, a []Value) Value {
		// a file set with one file "_.go" (yaegi's DefaultSourceName) in which position p lies on line p
		z := st.E.Zero(st.E.namedType("go/token", "Position")).(*StructV)
		f := append([]Value(nil), z.F...)
		f[0] = StrT("_.go")
		if p, ok := a[1].(*Term); ok {
			f[2] = st.fromMathInt(st.mathInt(p, types.Typ[types.Int]), types.Typ[types.Int])
		}
		return &StructV{F: f}
	}
	H["(go/token.Position).String"] = func(st *State, a []Value) Value { return StrT("-") }
	H["(*go/token.Position).String"] = H["(go/token.Position).String"]
	H["go/token.NewFileSet"] = func(st *State, a []Value) Value {
		return &PtrV{Obj: st.newObject(nil, "fileset", &StructV{})}
	}
	H["(reflect.Value).Call"] = func(st *State, a []Value) Value {
		v := a[0].(*StructV)
		fv, ok := v.F[1].(*FuncV)
		if !ok {
			st.unsupported("reflect.Value.Call on a value that does not hold a function (%T)", v.F[1])
		}
		var args []Value
		if in, ok := a[1].(*SliceV); ok {
			for _, e := range st.sliceElems(in) {
				args = append(args, e.(*StructV).F[1])
			}
		}
		r := st.Call(fv, args, nil)
		var outs []Value
		switch x := r.(type) {
		case nil:
		case TupleV:
			for _, o := range x {
				outs = append(outs, &StructV{F: []Value{&PtrV{}, o, IntT64(1)}})
			}
		default:
			outs = append(outs, &StructV{F: []Value{&PtrV{}, x, IntT64(1)}})
		}
		if len(outs) == 0 {
			return &SliceV{}
		}
		o := st.newObject(nil, "callresults", &ArrayV{E: outs})
		return &SliceV{Obj: o, Len: len(outs), Cap: len(outs)}
	}
	H["context.Background"] = func(st *State, a []Value) Value {
		return &IfaceV{T: opaqueDyn, V: &OpaqueV{Name: "context.Background", ID: 7}}
	}
	H["fmt.Errorf"] = func(st *State, a []Value) Value {
		st.E.objCtr++
		// keep the format and the constant string arguments in the name: the text is not
		// interpreted, but it tells which error this is when a run diverges
		name := "fmt.Errorf"
		if f, ok := a[0].(*Term); ok && f.Const {
			name += "(" + f.CS
			if sl, ok := a[1].(*SliceV); ok {
				for _, e := range st.sliceElems(sl) {
					if iv, ok := e.(*IfaceV); ok {
						if t, ok := iv.V.(*Term); ok && t.Const && t.Sort == SString {
							name += " | " + t.CS
						}
					}
				}
			}
			name += ")"
		}
		return &IfaceV{T: opaqueDyn, V: &OpaqueV{Name: name, ID: st.E.objCtr}}
	}
	H["errors.New"] = func(st *State, a []Value) Value {
		return &IfaceV{T: st.E.errorsStringType(), V: &PtrV{Obj: st.newObject(nil, "errors.New", &StructV{F: []Value{a[0]}})}}
	}
}

func onlyDigits(st *State, s *Term) bool {
	for _, p := range strParts(s) {
		cs := p.CS
		if !p.Const {
			c, ok := st.charset[p.S]
			if !ok {
				return false
			}
			cs = c
		}
		for i := 0; i < len(cs); i++ {
			if cs[i] < '0' || cs[i] > '9' {
				return false
			}
		}
	}
	return true
}

func st0IntTerm(v int64) *Term { return IntT64(v) }

// reflectKindOf maps a static type to its reflect.Kind number.
func reflectKindOf(t types.Type) int {
	switch u := t.Underlying().(type) {
	case *types.Basic:
		switch u.Kind() {
		case types.Bool:
			return 1
		case types.Int:
			return 2
		case types.Int8:
			return 3
		case types.Int16:
			return 4
		case types.Int32:
			return 5
		case types.Int64:
			return 6
		case types.Uint:
			return 7
		case types.Uint8:
			return 8
		case types.Uint16:
			return 9
		case types.Uint32:
			return 10
		case types.Uint64:
			return 11
		case types.Uintptr:
			return 12
		case types.Float32:
			return 13
		case types.Float64:
			return 14
		case types.Complex64:
			return 15
		case types.Complex128:
			return 16
		case types.String:
			return 24
		case types.UnsafePointer:
			return 26
		}
	case *types.Array:
		return 17
	case *types.Chan:
		return 18
	case *types.Signature:
		return 19
	case *types.Interface:
		return 20
	case *types.Map:
		return 21
	case *types.Pointer:
		return 22
	case *types.Slice:
		return 23
	case *types.Struct:
		return 25
	}
	return 0
}

func (e *Engine) namedType(pkg, name string) types.Type {
	if p := e.P.Package(pkg); p != nil {
		if t := p.Type(name); t != nil {
			return t.Type()
		}
	}
	panic("type not loaded: " + pkg + "." + name)
}

func (e *Engine) reflectValueType() types.Type {
	if p := e.P.Package("reflect"); p != nil {
		if t := p.Type("Value"); t != nil {
			return t.Type()
		}
	}
	panic("reflect not loaded")
}

func (e *Engine) fnIndex(name string) int {
	e.P.mu.Lock()
	defer e.P.mu.Unlock()
	if e.P.fnIdx == nil {
		e.P.fnIdx = map[string]int{}
	}
	if i, ok := e.P.fnIdx[name]; ok {
		return i
	}
	i := len(e.P.fnIdx) + 1
	e.P.fnIdx[name] = i
	return i
}

func pathBase(s string) string {
	if s == "" {
		return "."
	}
	for len(s) > 0 && s[len(s)-1] == '/' {
		s = s[:len(s)-1]
	}
	if i := strings.LastIndex(s, "/"); i >= 0 {
		s = s[i+1:]
	}
	if s == "" {
		return "/"
	}
	return s
}

func isDecimal(s string) bool {
	if len(s) > 0 && (s[0] == '+' || s[0] == '-') {
		s = s[1:]
	}
	if len(s) == 0 {
		return false
	}
	for i := 0; i < len(s); i++ {
		if s[i] < '0' || s[i] > '9' {
			return false
		}
	}
	return true
}

func (e *Engine) strconvErrType() types.Type {
	if p := e.P.Package("strconv"); p != nil {
		if t := p.Type("NumError"); t != nil {
			return types.NewPointer(t.Type())
		}
	}
	return opaqueDyn
}

func (e *Engine) errorsStringType() types.Type {
	if p := e.P.Package("errors"); p != nil {
		if t := p.Type("errorString"); t != nil {
			return types.NewPointer(t.Type())
		}
	}
	return opaqueDyn
}

// showDeep renders a value, following pointers and structs a few levels.
func (st *State) showDeep(v Value, depth int) string {
	if depth == 0 {
		return "..."
	}
	switch x := v.(type) {
	case *PtrV:
		if x.Obj == nil {
			return "nil"
		}
		return "&" + st.showDeep(st.load(x), depth-1)
	case *StructV:
		var parts []string
		for _, f := range x.F {
			parts = append(parts, st.showDeep(f, depth-1))
		}
		return "{" + strings.Join(parts, ", ") + "}"
	case *IfaceV:
		if x.T == nil {
			return "nil-iface"
		}
		return fmt.Sprintf("(%s)%s", x.T, st.showDeep(x.V, depth-1))
	case *OpaqueV:
		return "opaque<" + x.Name + ">"
	}
	return showValue(v)
}
