package sym

import (
	"go/types"
	"strings"
)

// Model of go/build/constraint for //go:build lines whose text is a
// concatenation of constant syntax and tag words (the shapes the C17 harness
// builds): IsGoBuild, Parse, Expr.Eval. Tags are the words; && binds tighter
// than ||; ! and parentheses as in the real parser. Eval calls the callback
// on every tag (no short circuit), like the real AndExpr/OrExpr.

type cExpr struct {
	op   string // "tag", "not", "and", "or"
	tag  *Term
	x, y *cExpr
}

var constraintExprDyn = fakeNamed("symconstraint.Expr")

type cTok struct {
	kind string // "tag", "&&", "||", "!", "(", ")"
	tag  *Term
}

func isTagByte(c byte) bool {
	return c >= 'a' && c <= 'z' || c >= 'A' && c <= 'Z' || c >= '0' && c <= '9' || c == '_' || c == '.'
}

// tokenizeConstraint splits the parts of the expression text into tokens.
func (st *State) tokenizeConstraint(parts []*Term) ([]cTok, bool) {
	var toks []cTok
	var cur *Term // tag being assembled
	flush := func() {
		if cur != nil {
			toks = append(toks, cTok{kind: "tag", tag: cur})
			cur = nil
		}
	}
	addTag := func(t *Term) {
		if cur == nil {
			cur = t
		} else {
			cur = StrConcat(cur, t)
		}
	}
	for _, p := range parts {
		if !p.Const {
			cs, ok := st.charset[p.S]
			if !ok {
				return nil, false
			}
			for i := 0; i < len(cs); i++ {
				if !isTagByte(cs[i]) {
					return nil, false
				}
			}
			if st.minlen[p.S] < 1 && cur == nil {
				return nil, false // a possibly empty word on its own would change the token structure
			}
			addTag(p)
			continue
		}
		s := p.CS
		for i := 0; i < len(s); {
			c := s[i]
			switch {
			case isTagByte(c):
				j := i
				for j < len(s) && isTagByte(s[j]) {
					j++
				}
				addTag(StrT(s[i:j]))
				i = j
			case c == ' ' || c == '\t':
				flush()
				i++
			case c == '!' || c == '(' || c == ')':
				flush()
				toks = append(toks, cTok{kind: string(c)})
				i++
			case strings.HasPrefix(s[i:], "&&") || strings.HasPrefix(s[i:], "||"):
				flush()
				toks = append(toks, cTok{kind: s[i : i+2]})
				i += 2
			default:
				return nil, false
			}
		}
	}
	flush()
	return toks, true
}

type cParser struct {
	toks []cTok
	pos  int
	err  bool
}

func (p *cParser) peek() string {
	if p.pos < len(p.toks) {
		return p.toks[p.pos].kind
	}
	return ""
}

func (p *cParser) or() *cExpr {
	x := p.and()
	for p.peek() == "||" {
		p.pos++
		x = &cExpr{op: "or", x: x, y: p.and()}
	}
	return x
}

func (p *cParser) and() *cExpr {
	x := p.not()
	for p.peek() == "&&" {
		p.pos++
		x = &cExpr{op: "and", x: x, y: p.not()}
	}
	return x
}

func (p *cParser) not() *cExpr {
	if p.peek() == "!" {
		p.pos++
		if p.peek() == "!" {
			p.err = true // "double negation not allowed"
			return &cExpr{op: "tag", tag: StrT("")}
		}
		return &cExpr{op: "not", x: p.not()}
	}
	return p.atom()
}

func (p *cParser) atom() *cExpr {
	switch p.peek() {
	case "(":
		p.pos++
		x := p.or()
		if p.peek() != ")" {
			p.err = true
			return x
		}
		p.pos++
		return x
	case "tag":
		t := p.toks[p.pos].tag
		p.pos++
		return &cExpr{op: "tag", tag: t}
	}
	p.err = true
	return &cExpr{op: "tag", tag: StrT("")}
}

func registerConstraintModel(e *Engine) {
	H := e.Hooks
	goBuildPrefix := func(st *State, line *Term) (rest []*Term, is bool, known bool) {
		parts := strParts(line)
		if len(parts) == 0 || !parts[0].Const {
			if line.Const {
				parts = []*Term{line}
			} else {
				return nil, false, false
			}
		}
		first := parts[0].CS
		const pre = "//go:build"
		if !strings.HasPrefix(first, pre) {
			// a constant first part that cannot be completed into the prefix decides it
			if len(first) >= len(pre) || !strings.HasPrefix(pre, first) || len(parts) == 1 {
				return nil, false, true
			}
			return nil, false, false
		}
		after := first[len(pre):]
		if after != "" && after[0] != ' ' && after[0] != '\t' {
			return nil, false, true
		}
		if after == "" && len(parts) > 1 {
			return nil, false, false
		}
		return append([]*Term{StrT(after)}, parts[1:]...), true, true
	}
	H["go/build/constraint.IsGoBuild"] = func(st *State, a []Value) Value {
		_, is, known := goBuildPrefix(st, a[0].(*Term))
		if !known {
			st.unsupported("constraint.IsGoBuild on a line whose prefix is not structurally known")
		}
		return BoolT(is)
	}
	H["go/build/constraint.Parse"] = func(st *State, a []Value) Value {
		rest, is, known := goBuildPrefix(st, a[0].(*Term))
		errV := func() Value {
			st.E.objCtr++
			return TupleV{&IfaceV{}, &IfaceV{T: opaqueDyn, V: &OpaqueV{Name: "constraint.SyntaxError", ID: st.E.objCtr}}}
		}
		if !known || !is {
			st.unsupported("constraint.Parse on a line that is not a structurally known //go:build line (+build lines are not modelled here)")
		}
		toks, ok := st.tokenizeConstraint(rest)
		if !ok {
			st.unsupported("constraint.Parse: expression text is not made of known syntax and tag words")
		}
		p := &cParser{toks: toks}
		if len(toks) == 0 {
			return errV()
		}
		x := p.or()
		if p.err || p.pos != len(toks) {
			return errV()
		}
		return TupleV{&IfaceV{T: constraintExprDyn, V: x}, &IfaceV{}}
	}
	var eval func(st *State, x *cExpr, ok *FuncV) *Term
	eval = func(st *State, x *cExpr, ok *FuncV) *Term {
		switch x.op {
		case "tag":
			return st.Call(ok, []Value{x.tag}, nil).(*Term)
		case "not":
			return Not(eval(st, x.x, ok))
		case "and":
			l := eval(st, x.x, ok)
			r := eval(st, x.y, ok)
			return And(l, r)
		default:
			l := eval(st, x.x, ok)
			r := eval(st, x.y, ok)
			return Or(l, r)
		}
	}
	H["(symconstraint.Expr).Eval"] = func(st *State, a []Value) Value {
		x, ok := a[0].(*cExpr)
		if !ok {
			st.unsupported("Expr.Eval on %T", a[0])
		}
		return eval(st, x, a[1].(*FuncV))
	}
	H["(symconstraint.Expr).String"] = func(st *State, a []Value) Value { return StrT("<expr>") }
	_ = types.Typ
}
