package sym

import (
	"go/types"
	"strings"
)

// Structural model of path/filepath for '/'-separated paths built from
// constants and words that contain neither '/' nor '.'. Every operation works
// on the concatenation structure of the term; if the structure does not pin
// down where the separators are, the operation is reported unsupported
// (inconclusive), never guessed.

type pathSeg struct {
	pieces []*Term // a name made of these pieces (concatenated); empty slice = empty segment
}

func (sg pathSeg) isConst(s string) bool {
	if len(sg.pieces) != 1 || !sg.pieces[0].Const {
		return false
	}
	return sg.pieces[0].CS == s
}

// segments tokenises a path term. rooted reports a leading '/'.
// trailing reports a trailing '/' (after a non-empty path).
func (st *State) segments(p *Term) (segs []pathSeg, rooted bool, ok bool) {
	cur := pathSeg{}
	first := true
	flush := func() {
		segs = append(segs, cur)
		cur = pathSeg{}
	}
	for _, part := range strParts(p) {
		if part.Const {
			cs := part.CS
			for len(cs) > 0 {
				i := strings.IndexByte(cs, '/')
				if i < 0 {
					cur.pieces = append(cur.pieces, StrT(cs))
					cs = ""
					break
				}
				if i > 0 {
					cur.pieces = append(cur.pieces, StrT(cs[:i]))
				}
				if first && len(cur.pieces) == 0 && len(segs) == 0 {
					rooted = true
					cur = pathSeg{}
				} else {
					flush()
				}
				cs = cs[i+1:]
				first = false
			}
			first = false
			continue
		}
		first = false
		if !st.cannotContain(part, "/") || !st.cannotContain(part, ".") {
			return nil, false, false
		}
		// a possibly empty word: decide it now
		if st.minlen[part.S] < 1 {
			if st.Branch(Eq(part, StrT(""))) {
				continue
			}
		}
		cur.pieces = append(cur.pieces, part)
	}
	flush()
	return segs, rooted, true
}

func joinSegs(segs []pathSeg, rooted bool) *Term {
	r := StrT("")
	if rooted {
		r = StrT("/")
	}
	for i, sg := range segs {
		if i > 0 {
			r = StrConcat(r, StrT("/"))
		}
		for _, p := range sg.pieces {
			r = StrConcat(r, p)
		}
	}
	return r
}

// pathClean implements path.Clean / filepath.Clean (Unix).
func (st *State) pathClean(p *Term) *Term {
	if p.Const {
		return StrT(cleanConst(p.CS))
	}
	segs, rooted, ok := st.segments(p)
	if !ok {
		st.unsupported("Clean of a path whose separators are not structurally known: %s", p.S)
	}
	var out []pathSeg
	for _, sg := range segs {
		switch {
		case len(sg.pieces) == 0, sg.isConst("."):
			continue
		case sg.isConst(".."):
			if n := len(out); n > 0 && !out[n-1].isConst("..") {
				out = out[:n-1]
			} else if !rooted {
				out = append(out, sg)
			}
		default:
			out = append(out, sg)
		}
	}
	if len(out) == 0 {
		if rooted {
			return StrT("/")
		}
		return StrT(".")
	}
	return joinSegs(out, rooted)
}

func cleanConst(s string) string {
	if s == "" {
		return "."
	}
	rooted := s[0] == '/'
	var out []string
	for _, sg := range strings.Split(s, "/") {
		switch sg {
		case "", ".":
		case "..":
			if n := len(out); n > 0 && out[n-1] != ".." {
				out = out[:n-1]
			} else if !rooted {
				out = append(out, sg)
			}
		default:
			out = append(out, sg)
		}
	}
	r := strings.Join(out, "/")
	if rooted {
		r = "/" + r
	}
	if r == "" {
		return "."
	}
	return r
}

// pathJoin implements filepath.Join: empty elements ignored, result cleaned.
func (st *State) pathJoin(elems []*Term) *Term {
	var r *Term
	for _, e := range elems {
		empty := false
		if e.Const {
			empty = e.CS == ""
		} else {
			nonEmpty := false
			for _, p := range strParts(e) {
				if (p.Const && p.CS != "") || (!p.Const && st.minlen[p.S] >= 1) {
					nonEmpty = true
				}
			}
			if !nonEmpty {
				empty = st.Branch(Eq(e, StrT("")))
			}
		}
		if empty {
			continue
		}
		if r == nil {
			r = e
		} else {
			r = StrConcat(StrConcat(r, StrT("/")), e)
		}
	}
	if r == nil {
		return StrT("")
	}
	return st.pathClean(r)
}

// pathSplit implements filepath.Split: dir keeps its trailing separator.
func (st *State) pathSplit(p *Term) (dir, file *Term) {
	if p.Const {
		i := strings.LastIndexByte(p.CS, '/')
		return StrT(p.CS[:i+1]), StrT(p.CS[i+1:])
	}
	parts := strParts(p)
	for i := len(parts) - 1; i >= 0; i-- {
		part := parts[i]
		if part.Const {
			if j := strings.LastIndexByte(part.CS, '/'); j >= 0 {
				d := concatParts(append(append([]*Term(nil), parts[:i]...), StrT(part.CS[:j+1])))
				f := concatParts(append([]*Term{StrT(part.CS[j+1:])}, parts[i+1:]...))
				return d, f
			}
			continue
		}
		if !st.cannotContain(part, "/") {
			st.unsupported("Split of a path whose separators are not structurally known: %s", p.S)
		}
	}
	return StrT(""), p
}

func (st *State) pathDir(p *Term) *Term {
	d, _ := st.pathSplit(p)
	return st.pathClean(d)
}

func registerPathHooks(e *Engine) {
	H := e.Hooks
	strArg := func(v Value) *Term { return v.(*Term) }
	join := func(st *State, a []Value) Value {
		var elems []*Term
		if sl, ok := a[0].(*SliceV); ok {
			for _, x := range st.sliceElems(sl) {
				elems = append(elems, x.(*Term))
			}
		}
		return st.pathJoin(elems)
	}
	H["strings.Join"] = func(st *State, a []Value) Value {
		r := StrT("")
		if sl, ok := a[0].(*SliceV); ok {
			for i, x := range st.sliceElems(sl) {
				if i > 0 {
					r = StrConcat(r, a[1].(*Term))
				}
				r = StrConcat(r, x.(*Term))
			}
		}
		return r
	}
	H["path/filepath.Join"] = join
	H["path.Join"] = join
	H["path/filepath.Clean"] = func(st *State, a []Value) Value { return st.pathClean(strArg(a[0])) }
	H["path.Clean"] = H["path/filepath.Clean"]
	H["path/filepath.Dir"] = func(st *State, a []Value) Value { return st.pathDir(strArg(a[0])) }
	H["path.Dir"] = H["path/filepath.Dir"]
	H["path/filepath.Split"] = func(st *State, a []Value) Value {
		d, f := st.pathSplit(strArg(a[0]))
		return TupleV{d, f}
	}
	H["path.Split"] = H["path/filepath.Split"]
	// errors.Is for the two shapes that occur: identical values, or a
	// *fs.PathError wrapping the target.
	H["errors.Is"] = func(st *State, a []Value) Value {
		err, target := a[0].(*IfaceV), a[1].(*IfaceV)
		for depth := 0; depth < 4; depth++ {
			if err.T == nil {
				return BoolT(target.T == nil)
			}
			if target.T != nil && types.Identical(err.T, target.T) {
				if c := st.eqValues(err.V, target.V); c.Const && c.CB {
					return TrueT
				}
			}
			// unwrap *fs.PathError
			if pt, ok := err.T.(*types.Pointer); ok {
				if n, ok := pt.Elem().(*types.Named); ok && n.Obj().Name() == "PathError" {
					pe := st.load(err.V.(*PtrV)).(*StructV)
					inner := pe.F[2].(*IfaceV)
					if inner.T == nil && target.T == nil {
						return TrueT
					}
					err = inner
					continue
				}
			}
			return FalseT
		}
		return FalseT
	}
}
