package sym

import (
	"fmt"
	"math/big"
	"strconv"
	"strings"
)

type Sort int

const (
	SBool Sort = iota
	SInt       // mathematical integer (also used for machine ints in Int mode)
	SBV        // bit-vector of width W
	SString
	SFP // floating point, W = 32 or 64 (or 16 for reduced format)
)

// Term is a scalar symbolic value: an SMT-LIB2 term with its sort, plus the
// constant it denotes when it is one (used for folding and concretisation).
type Term struct {
	S    string
	Sort Sort
	W    int
	// constant info
	Const bool
	CI    *big.Int // SInt, SBV (unsigned value)
	CB    bool
	CS    string
	// optional range knowledge for SInt terms (inclusive)
	Lo, Hi       *big.Int
	Lin          *Lin    // linear form (SInt), see strs.go
	Parts        []*Term // concatenation pieces (SString)
	FromBV       *Term   // for (bv2int FromBV) terms: the unsigned bit-vector this integer came from
	SubOf        *Term   // for (str.substr SubOf SubLo n) terms built by StrSubstr
	SubLo, SubHi *Term
}

func (t *Term) String() string { return t.S }

func sortName(s Sort, w int) string {
	switch s {
	case SBool:
		return "Bool"
	case SInt:
		return "Int"
	case SBV:
		return fmt.Sprintf("(_ BitVec %d)", w)
	case SString:
		return "String"
	case SFP:
		switch w {
		case 16:
			return "(_ FloatingPoint 5 11)"
		case 32:
			return "(_ FloatingPoint 8 24)"
		default:
			return "(_ FloatingPoint 11 53)"
		}
	}
	return "?"
}

var letCtr int

var (
	TrueT  = &Term{S: "true", Sort: SBool, Const: true, CB: true}
	FalseT = &Term{S: "false", Sort: SBool, Const: true, CB: false}
)

func BoolT(b bool) *Term {
	if b {
		return TrueT
	}
	return FalseT
}

func intLit(v *big.Int) string {
	if v.Sign() < 0 {
		return "(- " + new(big.Int).Neg(v).String() + ")"
	}
	return v.String()
}

func IntT(v *big.Int) *Term {
	v = new(big.Int).Set(v)
	return &Term{S: intLit(v), Sort: SInt, Const: true, CI: v, Lo: v, Hi: v}
}

func IntT64(v int64) *Term { return IntT(big.NewInt(v)) }

func BVT(v *big.Int, w int) *Term {
	if w <= 0 {
		panic("BVT with width 0")
	}
	m := new(big.Int).Lsh(big.NewInt(1), uint(w))
	u := new(big.Int).Mod(v, m)
	return &Term{S: fmt.Sprintf("(_ bv%s %d)", u.String(), w), Sort: SBV, W: w, Const: true, CI: u}
}

// smtString escapes a Go string (bytes <= 0x7f expected) as an SMT-LIB 2.6 literal.
func smtString(s string) string {
	var sb strings.Builder
	sb.WriteByte('"')
	for i := 0; i < len(s); i++ {
		c := s[i]
		switch {
		case c == '"':
			sb.WriteString("\"\"")
		case c == '\\':
			sb.WriteString("\\u{5c}")
		case c < 0x20 || c > 0x7e:
			fmt.Fprintf(&sb, "\\u{%x}", c)
		default:
			sb.WriteByte(c)
		}
	}
	sb.WriteByte('"')
	return sb.String()
}

func StrT(s string) *Term {
	return &Term{S: smtString(s), Sort: SString, Const: true, CS: s}
}

func mk(sort Sort, w int, format string, args ...interface{}) *Term {
	return &Term{S: fmt.Sprintf(format, args...), Sort: sort, W: w}
}

// ---- boolean connectives ----

func Not(a *Term) *Term {
	if a.Const {
		return BoolT(!a.CB)
	}
	if strings.HasPrefix(a.S, "(not ") {
		return &Term{S: a.S[5 : len(a.S)-1], Sort: SBool}
	}
	return mk(SBool, 0, "(not %s)", a.S)
}

func And(ts ...*Term) *Term {
	var parts []string
	for _, t := range ts {
		if t.Const {
			if !t.CB {
				return FalseT
			}
			continue
		}
		parts = append(parts, t.S)
	}
	switch len(parts) {
	case 0:
		return TrueT
	case 1:
		return &Term{S: parts[0], Sort: SBool}
	}
	return mk(SBool, 0, "(and %s)", strings.Join(parts, " "))
}

func Or(ts ...*Term) *Term {
	var parts []string
	for _, t := range ts {
		if t.Const {
			if t.CB {
				return TrueT
			}
			continue
		}
		parts = append(parts, t.S)
	}
	switch len(parts) {
	case 0:
		return FalseT
	case 1:
		return &Term{S: parts[0], Sort: SBool}
	}
	return mk(SBool, 0, "(or %s)", strings.Join(parts, " "))
}

func Implies(a, b *Term) *Term { return Or(Not(a), b) }

func Ite(c, a, b *Term) *Term {
	if c.Const {
		if c.CB {
			return a
		}
		return b
	}
	if a.S == b.S {
		return a
	}
	if a.Sort == SBool {
		switch {
		case a.Const && a.CB:
			return Or(c, b)
		case a.Const && !a.CB:
			return And(Not(c), b)
		case b.Const && b.CB:
			return Or(Not(c), a)
		case b.Const && !b.CB:
			return And(c, a)
		}
	}
	t := mk(a.Sort, a.W, "(ite %s %s %s)", c.S, a.S, b.S)
	if a.Sort == SInt && a.Lo != nil && b.Lo != nil && a.Hi != nil && b.Hi != nil {
		t.Lo = minBig(a.Lo, b.Lo)
		t.Hi = maxBig(a.Hi, b.Hi)
	}
	return t
}

func minBig(a, b *big.Int) *big.Int {
	if a.Cmp(b) < 0 {
		return a
	}
	return b
}
func maxBig(a, b *big.Int) *big.Int {
	if a.Cmp(b) > 0 {
		return a
	}
	return b
}

// Eq builds equality between two terms of the same sort.
func Eq(a, b *Term) *Term {
	if a.Const && b.Const {
		switch a.Sort {
		case SBool:
			return BoolT(a.CB == b.CB)
		case SInt, SBV:
			return BoolT(a.CI.Cmp(b.CI) == 0)
		case SString:
			return BoolT(a.CS == b.CS)
		}
	}
	if a.S == b.S && a.Sort != SFP {
		return TrueT
	}
	if a.FromBV != nil && b.FromBV != nil && a.FromBV.W == b.FromBV.W {
		// bv2int is injective
		return Eq(a.FromBV, b.FromBV)
	}
	if a.Sort == SFP {
		return mk(SBool, 0, "(fp.eq %s %s)", a.S, b.S)
	}
	if a.Sort == SInt && a.Lo != nil && a.Hi != nil && b.Lo != nil && b.Hi != nil {
		if a.Hi.Cmp(b.Lo) < 0 || b.Hi.Cmp(a.Lo) < 0 {
			return FalseT
		}
	}
	return mk(SBool, 0, "(= %s %s)", a.S, b.S)
}

// ---- strings ----

func StrLen(a *Term) *Term {
	if a.Const {
		return IntT64(int64(len(a.CS)))
	}
	t := mk(SInt, 0, "(str.len %s)", a.S)
	t.Lo = big.NewInt(0)
	t.Hi = big.NewInt(1 << 20)
	return t
}

func strParts(t *Term) []*Term {
	if len(t.Parts) > 0 {
		return t.Parts
	}
	return []*Term{t}
}

func StrConcat(a, b *Term) *Term {
	if a.Const && b.Const {
		return StrT(a.CS + b.CS)
	}
	if a.Const && a.CS == "" {
		return b
	}
	if b.Const && b.CS == "" {
		return a
	}
	var ps []*Term
	for _, p := range append(append([]*Term(nil), strParts(a)...), strParts(b)...) {
		if p.Const && p.CS == "" {
			continue
		}
		if n := len(ps); n > 0 && ps[n-1].Const && p.Const {
			ps[n-1] = StrT(ps[n-1].CS + p.CS)
			continue
		}
		ps = append(ps, p)
	}
	var ss []string
	for _, p := range ps {
		ss = append(ss, p.S)
	}
	t := mk(SString, 0, "(str.++ %s)", strings.Join(ss, " "))
	t.Parts = ps
	return t
}

// StrSubstr is s[lo:hi] given lo, hi as Int terms (bounds checked by the caller).
func StrSubstr(s, lo, hi *Term) *Term {
	if s.Const && lo.Const && hi.Const {
		l, h := int(lo.CI.Int64()), int(hi.CI.Int64())
		if 0 <= l && l <= h && h <= len(s.CS) {
			return StrT(s.CS[l:h])
		}
	}
	n := IntSub(hi, lo)
	t := mk(SString, 0, "(str.substr %s %s %s)", s.S, lo.S, n.S)
	t.SubOf, t.SubLo, t.SubHi = s, lo, hi
	return t
}

func StrPrefixOf(p, s *Term) *Term {
	if p.Const && s.Const {
		return BoolT(strings.HasPrefix(s.CS, p.CS))
	}
	return mk(SBool, 0, "(str.prefixof %s %s)", p.S, s.S)
}

func StrSuffixOf(p, s *Term) *Term {
	if p.Const && s.Const {
		return BoolT(strings.HasSuffix(s.CS, p.CS))
	}
	return mk(SBool, 0, "(str.suffixof %s %s)", p.S, s.S)
}

func StrContains(s, sub *Term) *Term {
	if sub.Const && s.Const {
		return BoolT(strings.Contains(s.CS, sub.CS))
	}
	return mk(SBool, 0, "(str.contains %s %s)", s.S, sub.S)
}

func StrIndexOf(s, sub, from *Term) *Term {
	if s.Const && sub.Const && from.Const {
		f := int(from.CI.Int64())
		if f >= 0 && f <= len(s.CS) {
			i := strings.Index(s.CS[f:], sub.CS)
			if i >= 0 {
				i += f
			}
			return IntT64(int64(i))
		}
	}
	t := mk(SInt, 0, "(str.indexof %s %s %s)", s.S, sub.S, from.S)
	t.Lo = big.NewInt(-1)
	t.Hi = big.NewInt(1 << 20)
	return t
}

// StrAtCode is the byte value of s[i] as an Int term.
func StrAtCode(s, i *Term) *Term {
	if s.Const && i.Const {
		k := int(i.CI.Int64())
		if k >= 0 && k < len(s.CS) {
			return IntT64(int64(s.CS[k]))
		}
	}
	t := mk(SInt, 0, "(str.to_code (str.at %s %s))", s.S, i.S)
	t.Lo = big.NewInt(0)
	t.Hi = big.NewInt(255)
	return t
}

func StrFromCode(c *Term) *Term {
	if c.Const {
		// string(rune): the UTF-8 encoding of the code point (U+FFFD when it is not valid)
		if !c.CI.IsInt64() || c.CI.Int64() < 0 || c.CI.Int64() > 0x10ffff {
			return StrT("\uFFFD")
		}
		return StrT(string(rune(c.CI.Int64())))
	}
	return mk(SString, 0, "(str.from_code %s)", c.S)
}

func StrLt(a, b *Term) *Term {
	if a.Const && b.Const {
		return BoolT(a.CS < b.CS)
	}
	return mk(SBool, 0, "(str.< %s %s)", a.S, b.S)
}

func StrLe(a, b *Term) *Term {
	if a.Const && b.Const {
		return BoolT(a.CS <= b.CS)
	}
	return mk(SBool, 0, "(str.<= %s %s)", a.S, b.S)
}

// ---- mathematical integers ----

func rng(t *Term) (lo, hi *big.Int) { return t.Lo, t.Hi }

func IntAdd(a, b *Term) *Term {
	if a.Const && b.Const {
		return IntT(new(big.Int).Add(a.CI, b.CI))
	}
	if b.Const && b.CI.Sign() == 0 {
		return a
	}
	if a.Const && a.CI.Sign() == 0 {
		return b
	}
	t := mk(SInt, 0, "(+ %s %s)", a.S, b.S)
	t.Lin = linAdd(linOf(a), linOf(b), 1)
	if a.Lo != nil && b.Lo != nil {
		t.Lo = new(big.Int).Add(a.Lo, b.Lo)
	}
	if a.Hi != nil && b.Hi != nil {
		t.Hi = new(big.Int).Add(a.Hi, b.Hi)
	}
	return t
}

func IntSub(a, b *Term) *Term {
	if a.Const && b.Const {
		return IntT(new(big.Int).Sub(a.CI, b.CI))
	}
	if b.Const && b.CI.Sign() == 0 {
		return a
	}
	t := mk(SInt, 0, "(- %s %s)", a.S, b.S)
	t.Lin = linAdd(linOf(a), linOf(b), -1)
	if len(t.Lin.M) == 0 {
		return IntT64(t.Lin.C)
	}
	if a.Lo != nil && b.Hi != nil {
		t.Lo = new(big.Int).Sub(a.Lo, b.Hi)
	}
	if a.Hi != nil && b.Lo != nil {
		t.Hi = new(big.Int).Sub(a.Hi, b.Lo)
	}
	return t
}

func IntNeg(a *Term) *Term {
	if a.Const {
		return IntT(new(big.Int).Neg(a.CI))
	}
	t := mk(SInt, 0, "(- %s)", a.S)
	t.Lin = linAdd(&Lin{}, linOf(a), -1)
	if a.Hi != nil {
		t.Lo = new(big.Int).Neg(a.Hi)
	}
	if a.Lo != nil {
		t.Hi = new(big.Int).Neg(a.Lo)
	}
	return t
}

func IntMul(a, b *Term) *Term {
	if a.Const && b.Const {
		return IntT(new(big.Int).Mul(a.CI, b.CI))
	}
	t := mk(SInt, 0, "(* %s %s)", a.S, b.S)
	if a.Lo != nil && a.Hi != nil && b.Lo != nil && b.Hi != nil {
		c := []*big.Int{
			new(big.Int).Mul(a.Lo, b.Lo), new(big.Int).Mul(a.Lo, b.Hi),
			new(big.Int).Mul(a.Hi, b.Lo), new(big.Int).Mul(a.Hi, b.Hi),
		}
		lo, hi := c[0], c[0]
		for _, x := range c[1:] {
			lo = minBig(lo, x)
			hi = maxBig(hi, x)
		}
		t.Lo, t.Hi = lo, hi
	}
	return t
}

// IntTDiv is Go's truncated division (b != 0 is the caller's business).
func IntTDiv(a, b *Term) *Term {
	if a.Const && b.Const && b.CI.Sign() != 0 {
		return IntT(new(big.Int).Quo(a.CI, b.CI))
	}
	// SMT div is floor for positive divisor / ceil for negative (Euclidean).
	// truncated: sign(a)*sign(b) * (|a| div |b|)
	letCtr++
	x, y := fmt.Sprintf("a!%d", letCtr), fmt.Sprintf("b!%d", letCtr)
	return mk(SInt, 0, "(let ((%[1]s %[3]s) (%[2]s %[4]s)) (ite (>= %[1]s 0) (ite (> %[2]s 0) (div %[1]s %[2]s) (- (div %[1]s (- %[2]s)))) (ite (> %[2]s 0) (- (div (- %[1]s) %[2]s)) (div (- %[1]s) (- %[2]s)))))", x, y, a.S, b.S)
}

// IntTRem is Go's remainder: a - b*tdiv(a,b).
func IntTRem(a, b *Term) *Term {
	if a.Const && b.Const && b.CI.Sign() != 0 {
		return IntT(new(big.Int).Rem(a.CI, b.CI))
	}
	letCtr++
	x, y := fmt.Sprintf("a!%d", letCtr), fmt.Sprintf("b!%d", letCtr)
	return mk(SInt, 0, "(let ((%[1]s %[3]s) (%[2]s %[4]s)) (ite (>= %[1]s 0) (mod %[1]s (abs %[2]s)) (- (mod (- %[1]s) (abs %[2]s)))))", x, y, a.S, b.S)
}

func IntMod(a, m *Term) *Term {
	if a.Const && m.Const && m.CI.Sign() > 0 {
		return IntT(new(big.Int).Mod(a.CI, m.CI))
	}
	t := mk(SInt, 0, "(mod %s %s)", a.S, m.S)
	if m.Const && m.CI.Sign() > 0 {
		t.Lo = big.NewInt(0)
		t.Hi = new(big.Int).Sub(m.CI, big.NewInt(1))
	}
	return t
}

// IntFloorDivPos is floor division by a positive constant (arithmetic shift
// right); the interval of the operand, when known, carries over.
func IntFloorDivPos(a, p *Term) *Term {
	if a.Const {
		q, m := new(big.Int).DivMod(a.CI, p.CI, new(big.Int))
		_ = m
		return IntT(q)
	}
	t := mk(SInt, 0, "(div %s %s)", a.S, p.S)
	if a.Lo != nil && a.Hi != nil {
		fl := func(x *big.Int) *big.Int { q, _ := new(big.Int).DivMod(x, p.CI, new(big.Int)); return q }
		t.Lo, t.Hi = fl(a.Lo), fl(a.Hi)
		if t.Lo.Cmp(t.Hi) == 0 {
			return IntT(t.Lo)
		}
	}
	return t
}

func cmpRange(a, b *Term) (known bool, lt, le bool) {
	if a.Hi != nil && b.Lo != nil && a.Hi.Cmp(b.Lo) < 0 {
		return true, true, true
	}
	if a.Lo != nil && b.Hi != nil && a.Lo.Cmp(b.Hi) > 0 {
		return true, false, false
	}
	return false, false, false
}

// linSign inspects a - b when every atom is a string length (>= 0):
// returns +1 if a-b >= 1 surely, 0 if a-b == 0 surely, -1 if a-b <= -1 surely,
// 2 if a-b >= 0 surely, -2 if a-b <= 0 surely, 9 if unknown.
func linSign(a, b *Term) int {
	d := linAdd(linOf(a), linOf(b), -1)
	pos, neg := true, true
	for k, v := range d.M {
		if !strings.HasPrefix(k, "(str.len ") {
			return 9
		}
		if v < 0 {
			pos = false
		}
		if v > 0 {
			neg = false
		}
	}
	switch {
	case len(d.M) == 0 && d.C == 0:
		return 0
	case pos && d.C >= 1:
		return 1
	case neg && d.C <= -1:
		return -1
	case pos && d.C >= 0:
		return 2
	case neg && d.C <= 0:
		return -2
	}
	return 9
}

func IntLt(a, b *Term) *Term {
	if a.Const && b.Const {
		return BoolT(a.CI.Cmp(b.CI) < 0)
	}
	switch linSign(a, b) {
	case -1:
		return TrueT
	case 0, 1, 2:
		return FalseT
	}
	if k, lt, _ := cmpRange(a, b); k {
		return BoolT(lt)
	}
	if a.Lo != nil && b.Hi != nil && a.Lo.Cmp(b.Hi) >= 0 {
		return FalseT
	}
	return mk(SBool, 0, "(< %s %s)", a.S, b.S)
}

func IntLe(a, b *Term) *Term {
	if a.Const && b.Const {
		return BoolT(a.CI.Cmp(b.CI) <= 0)
	}
	switch linSign(a, b) {
	case -1, -2, 0:
		return TrueT
	case 1:
		return FalseT
	}
	if k, _, le := cmpRange(a, b); k {
		return BoolT(le)
	}
	if a.Hi != nil && b.Lo != nil && a.Hi.Cmp(b.Lo) <= 0 {
		return TrueT
	}
	return mk(SBool, 0, "(<= %s %s)", a.S, b.S)
}

// WrapInt reduces an Int term to the range of a machine integer type.
func WrapInt(a *Term, bits int, signed bool) *Term {
	lo, hi := intRange(bits, signed)
	if a.Lo != nil && a.Hi != nil && a.Lo.Cmp(lo) >= 0 && a.Hi.Cmp(hi) <= 0 {
		return a
	}
	m := new(big.Int).Lsh(big.NewInt(1), uint(bits))
	if a.Const {
		v := new(big.Int).Mod(a.CI, m)
		if signed && v.Cmp(hi) > 0 {
			v.Sub(v, m)
		}
		return IntT(v)
	}
	var t *Term
	if signed {
		half := new(big.Int).Lsh(big.NewInt(1), uint(bits-1))
		t = mk(SInt, 0, "(- (mod (+ %s %s) %s) %s)", a.S, half.String(), m.String(), half.String())
	} else {
		t = mk(SInt, 0, "(mod %s %s)", a.S, m.String())
	}
	t.Lo, t.Hi = lo, hi
	return t
}

func intRange(bits int, signed bool) (lo, hi *big.Int) {
	if signed {
		hi = new(big.Int).Lsh(big.NewInt(1), uint(bits-1))
		lo = new(big.Int).Neg(hi)
		hi = new(big.Int).Sub(hi, big.NewInt(1))
		return
	}
	lo = big.NewInt(0)
	hi = new(big.Int).Lsh(big.NewInt(1), uint(bits))
	hi.Sub(hi, big.NewInt(1))
	return
}

// ---- bit-vectors ----

func bvBin(op string, a, b *Term) *Term {
	return mk(SBV, a.W, "(%s %s %s)", op, a.S, b.S)
}

func bvPred(op string, a, b *Term) *Term {
	return mk(SBool, 0, "(%s %s %s)", op, a.S, b.S)
}

func BVExtract(a *Term, hi, lo int) *Term {
	if a.Const {
		v := new(big.Int).Rsh(a.CI, uint(lo))
		return BVT(v, hi-lo+1)
	}
	return mk(SBV, hi-lo+1, "((_ extract %d %d) %s)", hi, lo, a.S)
}

func BVSignExt(a *Term, to int) *Term {
	if to == a.W {
		return a
	}
	if a.Const {
		v := new(big.Int).Set(a.CI)
		if v.Bit(a.W-1) == 1 {
			v.Sub(v, new(big.Int).Lsh(big.NewInt(1), uint(a.W)))
		}
		return BVT(v, to)
	}
	return mk(SBV, to, "((_ sign_extend %d) %s)", to-a.W, a.S)
}

func BVZeroExt(a *Term, to int) *Term {
	if to == a.W {
		return a
	}
	if a.Const {
		return BVT(a.CI, to)
	}
	return mk(SBV, to, "((_ zero_extend %d) %s)", to-a.W, a.S)
}

// signedVal gives the signed value of a constant bit-vector.
func signedVal(a *Term) *big.Int {
	if a.W <= 0 {
		panic(fmt.Sprintf("signedVal of a term without width: %s (sort %d)", a.S, a.Sort))
	}
	v := new(big.Int).Set(a.CI)
	if v.Bit(a.W-1) == 1 {
		v.Sub(v, new(big.Int).Lsh(big.NewInt(1), uint(a.W)))
	}
	return v
}

// ---- parsing solver values ----

// ParseSMTValue converts a solver value into a Go value: *big.Int for Int and
// BitVec, bool for Bool, string for String; FP values are returned as text.
func ParseSMTValue(v string) interface{} {
	v = strings.TrimSpace(v)
	switch {
	case v == "true":
		return true
	case v == "false":
		return false
	case strings.HasPrefix(v, "\""):
		return unescapeSMTString(v[1 : len(v)-1])
	case strings.HasPrefix(v, "#x"):
		n, _ := new(big.Int).SetString(v[2:], 16)
		return n
	case strings.HasPrefix(v, "#b"):
		n, _ := new(big.Int).SetString(v[2:], 2)
		return n
	case strings.HasPrefix(v, "(- "):
		n, ok := new(big.Int).SetString(strings.TrimSpace(v[3:len(v)-1]), 10)
		if ok {
			return n.Neg(n)
		}
	case strings.HasPrefix(v, "(_ bv"):
		f := strings.Fields(v[5:])
		n, _ := new(big.Int).SetString(f[0], 10)
		return n
	default:
		if n, ok := new(big.Int).SetString(v, 10); ok {
			return n
		}
	}
	return v
}

// ParseFPValue converts a solver's float64 model value into its IEEE-754 bit
// pattern (as a decimal string); ok is false if the syntax is not recognised.
func ParseFPValue(v string, eb, sb int) (string, bool) {
	v = strings.TrimSpace(v)
	total := uint(eb + sb)
	one := big.NewInt(1)
	expAll := new(big.Int).Lsh(new(big.Int).Sub(new(big.Int).Lsh(one, uint(eb)), one), uint(sb-1))
	switch {
	case strings.HasPrefix(v, "(_ NaN"):
		return new(big.Int).Or(expAll, new(big.Int).Lsh(one, uint(sb-2))).String(), true
	case strings.HasPrefix(v, "(_ +oo"):
		return expAll.String(), true
	case strings.HasPrefix(v, "(_ -oo"):
		return new(big.Int).Or(expAll, new(big.Int).Lsh(one, total-1)).String(), true
	case strings.HasPrefix(v, "(_ +zero"):
		return "0", true
	case strings.HasPrefix(v, "(_ -zero"):
		return new(big.Int).Lsh(one, total-1).String(), true
	case strings.HasPrefix(v, "(fp "):
		f := strings.Fields(strings.TrimSuffix(strings.TrimPrefix(v, "(fp "), ")"))
		if len(f) != 3 {
			return "", false
		}
		widths := []int{1, eb, sb - 1}
		bits := new(big.Int)
		for i, part := range f {
			var n *big.Int
			var ok bool
			switch {
			case strings.HasPrefix(part, "#b"):
				n, ok = new(big.Int).SetString(part[2:], 2)
			case strings.HasPrefix(part, "#x"):
				n, ok = new(big.Int).SetString(part[2:], 16)
			}
			if !ok {
				return "", false
			}
			bits.Lsh(bits, uint(widths[i]))
			bits.Or(bits, n)
		}
		return bits.String(), true
	}
	return "", false
}

func unescapeSMTString(s string) string {
	var sb strings.Builder
	for i := 0; i < len(s); i++ {
		c := s[i]
		if c == '"' && i+1 < len(s) && s[i+1] == '"' {
			sb.WriteByte('"')
			i++
			continue
		}
		if c == '\\' && i+1 < len(s) {
			// \u{X..}, \uXXXX, \xXX (z3 old)
			if s[i+1] == 'u' && i+2 < len(s) && s[i+2] == '{' {
				j := strings.IndexByte(s[i:], '}')
				if j > 0 {
					n, err := strconv.ParseUint(s[i+3:i+j], 16, 32)
					if err == nil {
						sb.WriteByte(byte(n))
						i += j
						continue
					}
				}
			}
			if s[i+1] == 'u' && i+5 < len(s) {
				n, err := strconv.ParseUint(s[i+2:i+6], 16, 32)
				if err == nil {
					sb.WriteByte(byte(n))
					i += 5
					continue
				}
			}
			if s[i+1] == 'x' && i+3 < len(s) {
				n, err := strconv.ParseUint(s[i+2:i+4], 16, 32)
				if err == nil {
					sb.WriteByte(byte(n))
					i += 3
					continue
				}
			}
		}
		sb.WriteByte(c)
	}
	return sb.String()
}
