package sym

import (
	"crypto/sha256"
	"fmt"
	"go/token"
	"go/types"
	"math/big"
	"os"
	"sort"
	"strings"
	"sync"
	"time"

	"golang.org/x/tools/go/packages"
	"golang.org/x/tools/go/ssa"
	"golang.org/x/tools/go/ssa/ssautil"
)

type HookFn func(st *State, args []Value) Value

type Stats struct {
	Paths, PathsDone, PathsInfeasible, PathsBound, PathsUnsupported, PathsPanicked int
	Instrs, Forks, Queries, UnknownBranch, FallbackProved                          int
}

// Program is the loaded, built SSA program shared by all engines.
type Program struct {
	Prog     *ssa.Program
	Pkgs     []*packages.Package
	Fset     *token.FileSet
	Targets  map[string]bool // package paths considered "ours" (always inlined)
	LoadTime time.Duration
	srcHash  map[string]string
	fnIdx    map[string]int
	mu       sync.Mutex
}

// Engine is one symbolic execution worker.
type Engine struct {
	P                *Program
	Solver           *Solver
	SolverName       string
	TimeoutMs        int
	IntMode          bool
	FP32As           int
	FP64As           int
	Hooks            map[string]HookFn
	Intrinsics       map[string]HookFn
	Redirect         map[string]*ssa.Function
	AllowInline      map[string]bool
	InlinePkgs       map[string]bool
	MaxUnroll        int
	MaxConcreteIter  int
	MaxDecisions     int
	MaxDepth         int
	MaxSteps         int
	MaxPaths         int
	EagerAssume      bool
	OpenFindings     map[string]bool
	AllFindingModels bool

	baseMem        map[*Object]Value
	globals        map[*ssa.Global]*Object
	objCtr         int
	work           [][]bool
	Stats          Stats
	asserts        map[string]*AssertRec
	Violations     []*Violation
	seenFinding    map[string]bool
	seenViol       map[string]bool
	Inconclusive   []string
	encoded        map[string]bool
	used           map[string]bool
	opaque         map[string]int
	EndReasons     map[string]int
	Reached        map[string]int
	rtErrType      types.Type
	eqHook         func(st *State, a, b Value) (*Term, bool)
	zeroHooks      []func(t types.Type) (Value, bool)
	Trace          bool
	NoErrFork      bool // opaque results of type error are a single opaque value (no nil/non-nil fork)
	Observations   []string
	Fallbacks      []string
	fb             map[string]*Solver
	predDeclared   map[string]bool
	Deadline       time.Time
	initPhase      bool
	initFileFilter map[string][]string
}

// Load builds SSA for the given patterns in dir with overlay files.
func Load(dir string, patterns []string, overlay map[string][]byte, targets []string, tags []string) (*Program, error) {
	t0 := time.Now()
	fset := token.NewFileSet()
	cfg := &packages.Config{
		Mode:    packages.LoadAllSyntax,
		Dir:     dir,
		Fset:    fset,
		Overlay: overlay,
		Env:     append(os.Environ(), "GOFLAGS=-mod=mod", "GOPROXY=off", "GOSUMDB=off", "GOTOOLCHAIN=local"),
	}
	if len(tags) > 0 {
		cfg.BuildFlags = []string{"-tags=" + strings.Join(tags, ",")}
	}
	pkgs, err := packages.Load(cfg, patterns...)
	if err != nil {
		return nil, err
	}
	var errs []string
	packages.Visit(pkgs, nil, func(p *packages.Package) {
		for _, e := range p.Errors {
			errs = append(errs, e.Error())
		}
	})
	if len(errs) > 0 {
		return nil, fmt.Errorf("load errors:\n%s", strings.Join(errs, "\n"))
	}
	prog, _ := ssautil.AllPackages(pkgs, ssa.InstantiateGenerics)
	prog.Build()
	p := &Program{Prog: prog, Pkgs: pkgs, Fset: fset, Targets: map[string]bool{}, srcHash: map[string]string{}}
	for _, t := range targets {
		p.Targets[t] = true
	}
	p.LoadTime = time.Since(t0)
	return p, nil
}

func (p *Program) Package(path string) *ssa.Package {
	for _, pk := range p.Prog.AllPackages() {
		if pk.Pkg.Path() == path {
			return pk
		}
	}
	return nil
}

// Func finds a package-level function or a method "T.m" / "(*T).m" by name.
func (p *Program) Func(pkgPath, name string) *ssa.Function {
	pk := p.Package(pkgPath)
	if pk == nil {
		return nil
	}
	if f := pk.Func(name); f != nil {
		return f
	}
	// method: "Type.Method" or "*Type.Method"
	ptr := strings.HasPrefix(name, "*")
	nm := strings.TrimPrefix(name, "*")
	if i := strings.Index(nm, "."); i > 0 {
		tn, mn := nm[:i], nm[i+1:]
		t := pk.Type(tn)
		if t == nil {
			return nil
		}
		var typ types.Type = t.Type()
		if ptr {
			typ = types.NewPointer(typ)
		}
		sel := p.Prog.MethodSets.MethodSet(typ).Lookup(pk.Pkg, mn)
		if sel == nil {
			return nil
		}
		return p.Prog.MethodValue(sel)
	}
	return nil
}

func NewEngine(p *Program, solver string, timeoutMs int) (*Engine, error) {
	e := &Engine{
		P: p, SolverName: solver, TimeoutMs: timeoutMs,
		Hooks: map[string]HookFn{}, Intrinsics: map[string]HookFn{}, Redirect: map[string]*ssa.Function{},
		AllowInline: map[string]bool{}, InlinePkgs: map[string]bool{},
		MaxUnroll: 8, MaxConcreteIter: 100000, MaxDecisions: 200, MaxDepth: 60, MaxSteps: 2000000, MaxPaths: 20000,
		OpenFindings: map[string]bool{},
		baseMem:      map[*Object]Value{}, globals: map[*ssa.Global]*Object{},
		asserts: map[string]*AssertRec{}, seenFinding: map[string]bool{}, seenViol: map[string]bool{},
		encoded: map[string]bool{}, used: map[string]bool{}, opaque: map[string]int{},
		EndReasons: map[string]int{}, Reached: map[string]int{}, predDeclared: map[string]bool{},
		IntMode:   true,
		Fallbacks: []string{"cvc5", "z3-new", "z3"},
	}
	s, err := NewSolver(solver, timeoutMs)
	if err != nil {
		return nil, err
	}
	e.Solver = s
	if rt := p.Package("runtime"); rt != nil {
		if t := rt.Type("errorString"); t != nil {
			e.rtErrType = t.Type()
		}
	}
	registerIntrinsics(e)
	registerLibHooks(e)
	registerPathHooks(e)
	registerReflectModel(e)
	registerConstModel(e)
	registerBigIntrinsics(e)
	registerConstraintModel(e)
	return e, nil
}

// Fork creates a worker sharing the program and base memory.
func (e *Engine) Fork(workerID int, solver string, timeoutMs int) (*Engine, error) {
	if solver == "" {
		solver = e.SolverName
	}
	if timeoutMs == 0 {
		timeoutMs = e.TimeoutMs
	}
	n, err := NewEngine(e.P, solver, timeoutMs)
	if err != nil {
		return nil, err
	}
	n.IntMode, n.FP32As, n.FP64As = e.IntMode, e.FP32As, e.FP64As
	for k, v := range e.Hooks {
		n.Hooks[k] = v
	}
	for k, v := range e.Redirect {
		n.Redirect[k] = v
	}
	for k, v := range e.AllowInline {
		n.AllowInline[k] = v
	}
	for k, v := range e.InlinePkgs {
		n.InlinePkgs[k] = v
	}
	for k, v := range e.OpenFindings {
		n.OpenFindings[k] = v
	}
	n.MaxUnroll, n.MaxDecisions, n.MaxDepth, n.MaxSteps, n.MaxPaths = e.MaxUnroll, e.MaxDecisions, e.MaxDepth, e.MaxSteps, e.MaxPaths
	n.EagerAssume = e.EagerAssume
	n.baseMem = make(map[*Object]Value, len(e.baseMem)) // private copy: harness globals may be overridden
	for k, v := range e.baseMem {
		n.baseMem[k] = v
	}
	n.globals = e.globals
	n.objCtr = e.objCtr + workerID*10000000
	n.eqHook = e.eqHook
	n.zeroHooks = e.zeroHooks
	n.rtErrType = e.rtErrType
	return n, nil
}

func (e *Engine) Close() {
	e.Solver.Close()
	for _, s := range e.fb {
		s.Close()
	}
}

func (e *Engine) fallbackSolver(name string) *Solver {
	if name == e.SolverName {
		return nil
	}
	if e.fb == nil {
		e.fb = map[string]*Solver{}
	}
	if s, ok := e.fb[name]; ok {
		return s
	}
	s, err := NewSolver(name, 3*e.TimeoutMs)
	if err != nil {
		e.fb[name] = nil
		return nil
	}
	e.fb[name] = s
	return s
}

func (e *Engine) isTargetPkg(p *ssa.Package) bool {
	return p != nil && e.P.Targets[p.Pkg.Path()]
}

func (e *Engine) isForeign(fn *ssa.Function) bool {
	p := fn.Pkg
	if p == nil && fn.Origin() != nil {
		p = fn.Origin().Pkg
	}
	if p == nil {
		// wrappers, bound methods etc.: look at the underlying object
		if fn.Object() != nil && fn.Object().Pkg() != nil {
			return !e.P.Targets[fn.Object().Pkg().Path()]
		}
		if fn.Parent() != nil {
			return e.isForeign(fn.Parent())
		}
		return false
	}
	return !e.P.Targets[p.Pkg.Path()]
}

func (e *Engine) inlineOK(fn *ssa.Function) bool {
	p := fn.Pkg
	if p == nil && fn.Origin() != nil {
		p = fn.Origin().Pkg
	}
	if p == nil {
		if fn.Parent() != nil {
			return e.inlineOK(fn.Parent())
		}
		if fn.Object() != nil && fn.Object().Pkg() != nil {
			return e.InlinePkgs[fn.Object().Pkg().Path()]
		}
		return true
	}
	return e.InlinePkgs[p.Pkg.Path()]
}

func (e *Engine) noteEncoded(fn *ssa.Function) {
	n := fn.String()
	if !e.encoded[n] {
		e.encoded[n] = true
	}
}

func (e *Engine) noteUsed(kind, name string) { e.used[kind+": "+name] = true }

func (e *Engine) noteInconclusive(id, why string) {
	e.Inconclusive = append(e.Inconclusive, id+": "+why)
}

func (e *Engine) assertRec(id string) *AssertRec {
	r := e.asserts[id]
	if r == nil {
		r = &AssertRec{ID: id}
		e.asserts[id] = r
	}
	return r
}

func (e *Engine) addViolation(v *Violation) {
	key := v.ID + "|" + v.Finding
	if e.seenViol[key] && len(e.Violations) > 200 {
		return
	}
	e.seenViol[key] = true
	e.Violations = append(e.Violations, v)
}

// EncodedFunctions lists the functions executed from SSA, with a hash of
// their source text position range for target-package functions.
func (e *Engine) EncodedFunctions() []string {
	var r []string
	for n := range e.encoded {
		r = append(r, n)
	}
	sort.Strings(r)
	return r
}

func (e *Engine) UsedSummaries() []string {
	var r []string
	for n := range e.used {
		r = append(r, n)
	}
	sort.Strings(r)
	return r
}

func (e *Engine) OpaqueCalls() []string {
	var r []string
	for n, c := range e.opaque {
		r = append(r, fmt.Sprintf("%s x%d", n, c))
	}
	sort.Strings(r)
	return r
}

func (e *Engine) Asserts() []*AssertRec {
	var r []*AssertRec
	for _, a := range e.asserts {
		r = append(r, a)
	}
	sort.Slice(r, func(i, j int) bool { return r[i].ID < r[j].ID })
	return r
}

// SourceHash hashes the source file set of the target packages (evidence).
func (p *Program) SourceHash() string {
	h := sha256.New()
	var files []string
	for _, pk := range p.Pkgs {
		files = append(files, pk.GoFiles...)
	}
	sort.Strings(files)
	for _, f := range files {
		b, err := os.ReadFile(f)
		if err == nil {
			h.Write([]byte(f))
			h.Write(b)
		}
	}
	return fmt.Sprintf("%x", h.Sum(nil))[:16]
}

func (e *Engine) globalObj(g *ssa.Global) *Object {
	e.P.mu.Lock()
	defer e.P.mu.Unlock()
	if o, ok := e.globals[g]; ok {
		return o
	}
	et := g.Type().Underlying().(*types.Pointer).Elem()
	e.objCtr++
	o := &Object{ID: e.objCtr, Typ: et, Name: g.String()}
	e.globals[g] = o
	e.baseMem[o] = e.Zero(et)
	return o
}

func (e *Engine) zeroHook(t types.Type) (Value, bool) {
	for _, h := range e.zeroHooks {
		if v, ok := h(t); ok {
			return v, true
		}
	}
	return nil, false
}

func (e *Engine) runtimeErrorValue(kind, detail string) Value {
	if e.rtErrType != nil {
		return &IfaceV{T: e.rtErrType, V: StrT(detail)}
	}
	return &IfaceV{T: types.Typ[types.String], V: StrT("runtime error: " + detail)}
}

func (e *Engine) implements(t types.Type, it *types.Interface) bool {
	if isConstModelType(t) {
		// the model types of go/constant implement constant.Value (recognised by its unexported method)
		for i := 0; i < it.NumMethods(); i++ {
			if it.Method(i).Name() == "implementsValue" {
				return true
			}
		}
		return it.NumMethods() == 0
	}
	if t == rtypeDyn || t == opaqueDyn || t == constraintExprDyn {
		return true
	}
	return types.Implements(t, it)
}

func (e *Engine) resolveMethod(st *State, iv *IfaceV, m *types.Func) *FuncV {
	// hooked dynamic types
	key := fmt.Sprintf("(%s).%s", iv.T.String(), m.Name())
	if _, ok := e.Hooks[key]; ok {
		return &FuncV{Native: key}
	}
	if iv.T == opaqueDyn {
		return &FuncV{Native: "@opaque:" + m.FullName(), Sig: m.Type().(*types.Signature)}
	}
	fn := e.P.Prog.LookupMethod(iv.T, m.Pkg(), m.Name())
	if fn == nil {
		st.unsupported("no method %s on %s", m.Name(), iv.T)
	}
	return &FuncV{Fn: fn}
}

func (e *Engine) opaqueResults(st *State, name string, sig *types.Signature, args []Value) Value {
	e.opaque[name]++
	st.events = append(st.events, Event{Tag: "opaque:" + name, Args: args})
	res := sig.Results()
	switch res.Len() {
	case 0:
		return nil
	case 1:
		return st.FreshValue(name+"_r0", res.At(0).Type())
	}
	r := make(TupleV, res.Len())
	for i := range r {
		r[i] = st.FreshValue(fmt.Sprintf("%s_r%d", name, i), res.At(i).Type())
	}
	return r
}

// opaqueCall models a call we deliberately do not look inside: fresh results.
func (e *Engine) opaqueCall(st *State, fn *ssa.Function, args []Value) Value {
	name := fn.String()
	e.opaque[name]++
	st.events = append(st.events, Event{Tag: "opaque:" + name, Args: args})
	res := fn.Signature.Results()
	mkv := func(t types.Type, i int) Value { return st.FreshValue(fmt.Sprintf("%s_r%d", fn.Name(), i), t) }
	switch res.Len() {
	case 0:
		return nil
	case 1:
		return mkv(res.At(0).Type(), 0)
	}
	r := make(TupleV, res.Len())
	for i := range r {
		r[i] = mkv(res.At(i).Type(), i)
	}
	return r
}

// FreshValue makes an unconstrained value of a type: symbolic scalars,
// opaque identities for reference types.
func (st *State) FreshValue(hint string, t types.Type) Value {
	if z, ok := st.E.zeroHook(t); ok {
		_ = z
		st.E.objCtr++
		return &OpaqueV{Name: hint, ID: st.E.objCtr, T: t}
	}
	switch u := t.Underlying().(type) {
	case *types.Basic:
		switch {
		case u.Info()&types.IsBoolean != 0:
			return st.FreshTerm(hint, SBool, 0)
		case u.Info()&types.IsString != 0:
			s := st.FreshTerm(hint, SString, 0)
			return s
		case u.Info()&types.IsInteger != 0:
			bits, signed := intInfo(t)
			if st.E.IntMode {
				x := st.FreshTerm(hint, SInt, 0)
				lo, hi := intRange(bits, signed)
				st.assertTerm(And(IntLe(IntT(lo), x), IntLe(x, IntT(hi))))
				x.Lo, x.Hi = lo, hi
				return x
			}
			return st.FreshTerm(hint, SBV, bits)
		case u.Info()&types.IsFloat != 0:
			return st.FreshTerm(hint, SFP, st.E.fpWidth(t))
		}
	case *types.Struct:
		f := make([]Value, u.NumFields())
		for i := range f {
			f[i] = st.FreshValue(fmt.Sprintf("%s_f%d", hint, i), u.Field(i).Type())
		}
		return &StructV{F: f}
	case *types.Interface:
		if isErrorType(t) {
			// stubbed callee: either succeeds or fails with an opaque error
			if st.E.initPhase {
				return &IfaceV{}
			}
			if st.E.NoErrFork {
				st.E.objCtr++
				return &IfaceV{T: opaqueDyn, V: &OpaqueV{Name: hint, ID: st.E.objCtr, T: t}}
			}
			c := st.FreshTerm(hint+"_fails", SBool, 0)
			if !st.Branch(c) {
				return &IfaceV{}
			}
		}
		st.E.objCtr++
		return &IfaceV{T: opaqueDyn, V: &OpaqueV{Name: hint, ID: st.E.objCtr, T: t}}
	case *types.Slice:
		return &SliceV{}
	case *types.Tuple:
		r := make(TupleV, u.Len())
		for i := range r {
			r[i] = st.FreshValue(fmt.Sprintf("%s_%d", hint, i), u.At(i).Type())
		}
		return r
	}
	st.E.objCtr++
	return &OpaqueV{Name: hint, ID: st.E.objCtr, T: t}
}

func isErrorType(t types.Type) bool {
	n, ok := t.(*types.Named)
	return ok && n.Obj().Pkg() == nil && n.Obj().Name() == "error"
}

// opaqueDyn is the dynamic type given to opaque interface values.
var opaqueDyn types.Type = types.NewNamed(types.NewTypeName(token.NoPos, nil, "opaqueDyn", nil), types.NewStruct(nil, nil), nil)

// default concurrency stubs: recorded as events; overridden by property drivers.
func (e *Engine) goStmt(st *State, fr *frame, fn Value, args []Value) {
	st.events = append(st.events, Event{Tag: "go", Args: append([]Value{fn}, args...)})
	st.pendingGo = append(st.pendingGo, pendingGo{fn: fn, args: args})
	if h := e.Hooks["@go"]; h != nil {
		h(st, append([]Value{fn}, args...))
	}
}

func (e *Engine) chanSend(st *State, fr *frame, ch, v Value) {
	if h := e.Hooks["@send"]; h != nil {
		h(st, []Value{ch, v})
		return
	}
	st.unsupported("channel send")
}

func (e *Engine) chanRecv(st *State, fr *frame, ch Value, commaOk bool, t types.Type) Value {
	if h := e.Hooks["@recv"]; h != nil {
		return h(st, []Value{ch, BoolT(commaOk)})
	}
	st.unsupported("channel receive")
	return nil
}

func (e *Engine) chanClose(st *State, ch Value) {
	if h := e.Hooks["@close"]; h != nil {
		h(st, []Value{ch})
		return
	}
	st.events = append(st.events, Event{Tag: "close", Args: []Value{ch}})
}

// selectStmt: a nondeterministic choice among the cases (and default);
// received values are fresh.
func (e *Engine) selectStmt(st *State, fr *frame, x *ssa.Select) Value {
	n := len(x.States)
	hi := n - 1
	if !x.Blocking {
		hi = n // index -1 is modelled as n
	}
	if hi < 0 {
		// select {} can never proceed
		st.events = append(st.events, Event{Tag: "blocking:select{}"})
		st.abort("deadlock", "select {} blocks forever")
	}
	k := hi
	if chooser := e.harnessFunc("vhSelectChoice"); chooser != nil {
		r := st.callFn(chooser, []Value{e.intTerm(big.NewInt(int64(n)), types.Typ[types.Int])}, nil, nil)
		k = st.concreteInt(r, "select choice")
		if k < 0 || k > hi {
			st.unsupported("vhSelectChoice returned %d", k)
		}
	} else {
		c := st.FreshTerm("select", SInt, 0)
		st.assertTerm(And(IntLe(IntT64(0), c), IntLe(c, IntT64(int64(hi)))))
		for i := 0; i < hi; i++ {
			if st.Branch(Eq(c, IntT64(int64(i)))) {
				k = i
				break
			}
		}
	}
	idx := int64(k)
	if !x.Blocking && k == n {
		idx = -1
	}
	tt := x.Type().(*types.Tuple)
	res := make(TupleV, tt.Len())
	res[0] = e.intTerm(big.NewInt(idx), types.Typ[types.Int])
	res[1] = st.FreshTerm("recvok", SBool, 0)
	for i := 2; i < tt.Len(); i++ {
		res[i] = st.FreshValue("recv", tt.At(i).Type())
	}
	st.events = append(st.events, Event{Tag: "select", Args: []Value{res[0]}})
	return res
}

func (e *Engine) harnessFunc(name string) *ssa.Function {
	for p := range e.P.Targets {
		if pk := e.P.Package(p); pk != nil {
			if f := pk.Func(name); f != nil {
				return f
			}
		}
	}
	return nil
}

// ---- exploration ----

type PathResult struct {
	Reason string
	Detail string
}

// RunInit executes a package initialiser concretely and freezes the resulting
// memory as the base state of every path.
// RunInitFiles executes the initialiser of a dependency package restricted to
// the init functions declared in the named files (package-level variable
// initialisers always run): the tables built by the other files stay empty.
func (e *Engine) RunInitFiles(pkgPath string, files []string) error {
	e.initFileFilter = map[string][]string{pkgPath: files}
	defer func() { e.initFileFilter = nil }()
	return e.RunInit(pkgPath)
}

// skipInitFn: under RunInitFiles, an init#N function of the filtered package
// declared in a file that is not listed.
func (e *Engine) skipInitFn(fn *ssa.Function) bool {
	if e.initFileFilter == nil || fn.Pkg == nil || !strings.HasPrefix(fn.Name(), "init#") {
		return false
	}
	files, ok := e.initFileFilter[fn.Pkg.Pkg.Path()]
	if !ok {
		return false
	}
	name := e.P.Fset.Position(fn.Pos()).Filename
	for _, f := range files {
		if strings.HasSuffix(name, f) {
			return false
		}
	}
	return true
}

func (e *Engine) RunInit(pkgPath string) error {
	pk := e.P.Package(pkgPath)
	if pk == nil {
		return fmt.Errorf("no package %s", pkgPath)
	}
	fn := pk.Func("init")
	// create every global up front so that forked workers never allocate one
	for _, p := range e.P.Prog.AllPackages() {
		for _, m := range p.Members {
			if g, ok := m.(*ssa.Global); ok {
				e.globalObj(g)
			}
		}
	}
	st := e.newState(nil)
	var res PathResult
	e.initPhase = true
	defer func() { e.initPhase = false }()
	e.Solver.Push()
	func() {
		defer func() {
			if r := recover(); r != nil {
				switch x := r.(type) {
				case *pathEnd:
					res = PathResult{x.Reason, x.Detail}
				case *goPanic:
					res = PathResult{"panic", x.Info.Kind + ": " + x.Info.Detail + " " + showValue(x.Info.Val)}
				default:
					panic(r)
				}
			}
		}()
		// set the guard so that dependency inits are skipped naturally
		st.callFn(fn, nil, nil, nil)
	}()
	e.Solver.Pop()
	if res.Reason != "" {
		return fmt.Errorf("init of %s: %s %s", pkgPath, res.Reason, res.Detail)
	}
	for o, v := range st.mem {
		e.baseMem[o] = v
	}
	return nil
}

func (e *Engine) newState(prefix []bool) *State {
	return &State{E: e, mem: map[*Object]Value{}, prefix: prefix, scratch: map[string]Value{},
		decomp: map[string]*decompRec{}, sufDecomp: map[string]*decompRec{}, preDecomp: map[string]*decompRec{},
		noSep: map[string]bool{}, subCache: map[string]*Term{}, condCache: map[string]bool{}, charset: map[string]string{}, maxlen: map[string]int{}, minlen: map[string]int{}, predDecl: map[string]bool{}}
}

// Explore runs all paths of entry (depth first).
func (e *Engine) Explore(entry *ssa.Function, args []Value) {
	e.work = [][]bool{nil}
	name := entry.Name()
	for len(e.work) > 0 {
		if !e.Deadline.IsZero() && time.Now().After(e.Deadline) {
			e.noteInconclusive(name, fmt.Sprintf("time budget exhausted after %d paths with %d prefixes pending", e.Stats.Paths, len(e.work)))
			e.work = nil
			break
		}
		if e.Stats.Paths >= e.MaxPaths {
			e.noteInconclusive(name, fmt.Sprintf("path budget %d exhausted with %d prefixes pending", e.MaxPaths, len(e.work)))
			e.work = nil
			break
		}
		prefix := e.work[len(e.work)-1]
		e.work = e.work[:len(e.work)-1]
		e.Stats.Paths++
		st := e.newState(prefix)
		var res PathResult
		e.Solver.Push()
		func() {
			defer func() {
				if r := recover(); r != nil {
					switch x := r.(type) {
					case *pathEnd:
						res = PathResult{x.Reason, x.Detail}
						if x.Reason == "deadlock" {
							// the harness can never proceed: a violation of its implicit obligation
							func() {
								defer func() {
									if r2 := recover(); r2 != nil {
										if _, ok := r2.(*pathEnd); !ok {
											panic(r2)
										}
									}
								}()
								st.Assert(name+".deadlock", FalseT)
							}()
						}
					case *goPanic:
						res = PathResult{"panic", x.Info.Kind + ": " + x.Info.Detail}
						// an uncaught panic of the harness itself is a violation
						func() {
							defer func() {
								if r2 := recover(); r2 != nil {
									if _, ok := r2.(*pathEnd); !ok {
										panic(r2)
									}
								}
							}()
							st.Assert(name+".uncaught-panic", FalseT)
						}()
					default:
						panic(r)
					}
				}
			}()
			st.callFn(entry, args, nil, nil)
			res = PathResult{"done", ""}
		}()
		e.Solver.Pop()
		e.EndReasons[res.Reason]++
		switch res.Reason {
		case "done":
			e.Stats.PathsDone++
		case "infeasible":
			e.Stats.PathsInfeasible++
		case "bound":
			e.Stats.PathsBound++
			e.noteInconclusive(name, "bound: "+res.Detail)
		case "unsupported":
			e.Stats.PathsUnsupported++
			e.noteInconclusive(name, "unsupported: "+res.Detail)
		case "panic":
			e.Stats.PathsPanicked++
		}
		if e.Trace {
			fmt.Fprintf(os.Stderr, "path %d %v => %s %s\n", e.Stats.Paths, prefix, res.Reason, res.Detail)
			// the library calls that were not interpreted on this path (what a divergence usually comes from)
			seen := map[string]int{}
			var order []string
			for _, ev := range st.events {
				if strings.HasPrefix(ev.Tag, "opaque:") {
					if seen[ev.Tag] == 0 {
						order = append(order, ev.Tag)
					}
					seen[ev.Tag]++
				}
			}
			for _, t := range order {
				fmt.Fprintf(os.Stderr, "    %s x%d\n", t, seen[t])
			}
		}
	}
}

// ReinitBV re-creates the base memory with machine integers as bit-vectors
// (package initialisers are executed again in that encoding).
func (e *Engine) ReinitBV(pkgPath string) error {
	e.IntMode = false
	e.baseMem = map[*Object]Value{}
	for g, o := range e.globals {
		et := g.Type().Underlying().(*types.Pointer).Elem()
		e.baseMem[o] = e.Zero(et)
	}
	// reset the init guards so that the initialisers run again
	for _, p := range e.P.Prog.AllPackages() {
		if g, ok := p.Members["init$guard"].(*ssa.Global); ok {
			if o := e.globals[g]; o != nil {
				e.baseMem[o] = FalseT
			}
		}
	}
	return e.RunInit(pkgPath)
}

// SetGlobalInt overrides an int package variable of a harness in this worker.
func (e *Engine) SetGlobalInt(pkgPath, name string, v int) error {
	pk := e.P.Package(pkgPath)
	if pk == nil {
		return fmt.Errorf("no package %s", pkgPath)
	}
	g, ok := pk.Members[name].(*ssa.Global)
	if !ok {
		return fmt.Errorf("no global %s", name)
	}
	o := e.globalObj(g)
	e.baseMem[o] = e.intTerm(big.NewInt(int64(v)), types.Typ[types.Int])
	return nil
}

// SetGlobalStrings gives a package-level []string variable of any loaded
// package (e.g. os.Args, whose initialiser is not executed) a concrete value.
func (e *Engine) SetGlobalStrings(pkgPath, name string, vals []string) error {
	var g *ssa.Global
	for _, p := range e.P.Prog.AllPackages() {
		if p.Pkg.Path() == pkgPath {
			g, _ = p.Members[name].(*ssa.Global)
		}
	}
	if g == nil {
		return fmt.Errorf("no global %s.%s", pkgPath, name)
	}
	var elems []Value
	for _, v := range vals {
		elems = append(elems, StrT(v))
	}
	e.objCtr++
	arr := &Object{ID: e.objCtr, Typ: types.NewArray(types.Typ[types.String], int64(len(vals))), Name: pkgPath + "." + name + "$backing"}
	e.baseMem[arr] = &ArrayV{E: elems}
	e.baseMem[e.globalObj(g)] = &SliceV{Obj: arr, Len: len(vals), Cap: len(vals)}
	return nil
}

// RunOnce executes fn on one path (no forking expected) and hands the final
// state's event trace to inspect. Used by drivers that build their own
// symbolic arguments.
func (e *Engine) RunOnce(fn *ssa.Function, mkArgs func(st *State) []Value, inspect func(st *State, ret Value, panicked string)) (reason string) {
	e.work = nil
	e.Stats.Paths++
	st := e.newState(nil)
	e.Solver.Push()
	defer e.Solver.Pop()
	reason = "done"
	func() {
		defer func() {
			if r := recover(); r != nil {
				switch x := r.(type) {
				case *pathEnd:
					reason = x.Reason + ": " + x.Detail
				case *goPanic:
					inspect(st, nil, x.Info.Kind+": "+x.Info.Detail)
				default:
					panic(r)
				}
			}
		}()
		args := mkArgs(st)
		ret := st.callFn(fn, args, nil, nil)
		inspect(st, ret, "")
	}()
	if len(e.work) > 0 {
		reason = "forked"
	}
	return reason
}

// Events exposes the trace of a state to drivers.
func (st *State) Events() []Event { return st.events }

// EqValues exposes structural/symbolic equality to drivers.
func (st *State) EqValues(a, b Value) (t *Term, ok bool) {
	if ta, isT := a.(TupleV); isT {
		tb, isT2 := b.(TupleV)
		if !isT2 || len(ta) != len(tb) {
			return FalseT, true
		}
		var cs []*Term
		for i := range ta {
			c, ok := st.EqValues(ta[i], tb[i])
			if !ok {
				return nil, false
			}
			cs = append(cs, c)
		}
		return And(cs...), true
	}
	if a == nil && b == nil {
		return TrueT, true
	}
	defer func() {
		if r := recover(); r != nil {
			if _, isEnd := r.(*pathEnd); isEnd {
				t, ok = nil, false
				return
			}
			panic(r)
		}
	}()
	return st.eqValues(a, b), true
}

// AssertDriver lets a driver discharge an obligation on a state.
func (st *State) AssertDriver(id string, c *Term) {
	defer func() {
		if r := recover(); r != nil {
			if _, isEnd := r.(*pathEnd); !isEnd {
				panic(r)
			}
		}
	}()
	st.Assert(id, c)
}

// StubFunc makes a function value whose calls are recorded as events
// "opaque:@stub:<name>" with fresh results.
func StubFunc(name string, sig *types.Signature) *FuncV {
	return &FuncV{Native: "@stub:" + name, Sig: sig}
}
