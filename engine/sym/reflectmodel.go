package sym

import (
	"fmt"
	"go/token"
	"go/types"
	"math/big"
)

// Model of the part of package reflect that yaegi's operator, constant and
// frame code uses on basic kinds. It is the largest trusted piece of the
// engine; it is validated natively against real reflect on vectors (see
// harness/*_validate) and listed in every evidence file that uses it.

// RType models a reflect.Type.
type RType struct {
	Kind      int
	GoType    types.Type // static Go type when known
	ConstImpl bool       // a dynamic type of go/constant (implements constant.Value)
	Elem      *RType
	ID        int
}

// RVal models a reflect.Value: either an immediate payload or a reference to
// an addressable cell (Ref) holding the payload.
type RVal struct {
	Kind int
	Typ  *RType
	Val  Value // immediate payload (nil when Ref != nil)
	Ref  *PtrV // addressable storage
}

const (
	rkInvalid = iota
	rkBool
	rkInt
	rkInt8
	rkInt16
	rkInt32
	rkInt64
	rkUint
	rkUint8
	rkUint16
	rkUint32
	rkUint64
	rkUintptr
	rkFloat32
	rkFloat64
	rkComplex64
	rkComplex128
	rkArray
	rkChan
	rkFunc
	rkInterface
	rkMap
	rkPtr
	rkSlice
	rkString
	rkStruct
	rkUnsafePointer
)

var rkNames = []string{"invalid", "bool", "int", "int8", "int16", "int32", "int64", "uint", "uint8", "uint16", "uint32", "uint64", "uintptr",
	"float32", "float64", "complex64", "complex128", "array", "chan", "func", "interface", "map", "ptr", "slice", "string", "struct", "unsafe.Pointer"}

func kindGoType(k int) types.Type {
	switch k {
	case rkBool:
		return types.Typ[types.Bool]
	case rkInt:
		return types.Typ[types.Int]
	case rkInt8:
		return types.Typ[types.Int8]
	case rkInt16:
		return types.Typ[types.Int16]
	case rkInt32:
		return types.Typ[types.Int32]
	case rkInt64:
		return types.Typ[types.Int64]
	case rkUint:
		return types.Typ[types.Uint]
	case rkUint8:
		return types.Typ[types.Uint8]
	case rkUint16:
		return types.Typ[types.Uint16]
	case rkUint32:
		return types.Typ[types.Uint32]
	case rkUint64:
		return types.Typ[types.Uint64]
	case rkUintptr:
		return types.Typ[types.Uintptr]
	case rkFloat32:
		return types.Typ[types.Float32]
	case rkFloat64:
		return types.Typ[types.Float64]
	case rkComplex64:
		return types.Typ[types.Complex64]
	case rkComplex128:
		return types.Typ[types.Complex128]
	case rkString:
		return types.Typ[types.String]
	}
	return nil
}

func isSignedKind(k int) bool   { return k >= rkInt && k <= rkInt64 }
func isUnsignedKind(k int) bool { return k >= rkUint && k <= rkUintptr }
func isFloatKind(k int) bool    { return k == rkFloat32 || k == rkFloat64 }
func isComplexKind(k int) bool  { return k == rkComplex64 || k == rkComplex128 }

var rtypeDyn types.Type = types.NewNamed(types.NewTypeName(token.NoPos, nil, "symreflect.rtype", nil), types.NewStruct(nil, nil), nil)

func (e *Engine) rtypeOfKind(k int) *RType {
	return &RType{Kind: k, GoType: kindGoType(k)}
}

func (e *Engine) rtypeOfGo(t types.Type) *RType {
	rt := &RType{Kind: reflectKindOf(t), GoType: t}
	switch u := t.Underlying().(type) {
	case *types.Pointer:
		rt.Elem = e.rtypeOfGo(u.Elem())
	case *types.Slice:
		rt.Elem = e.rtypeOfGo(u.Elem())
	case *types.Array:
		rt.Elem = e.rtypeOfGo(u.Elem())
	case *types.Map:
		rt.Elem = e.rtypeOfGo(u.Elem())
	case *types.Chan:
		rt.Elem = e.rtypeOfGo(u.Elem())
	}
	if t == constIntT || t == constStrT || t == constBoolT || t == constFloatT || t == constUnknownT {
		rt.ConstImpl = true
		rt.Kind = rkStruct
	}
	return rt
}

func rtypeIface(rt *RType) Value {
	if rt == nil {
		return &IfaceV{}
	}
	return &IfaceV{T: rtypeDyn, V: rt}
}

func asRType(st *State, v Value) *RType {
	iv, ok := v.(*IfaceV)
	if !ok {
		st.unsupported("reflect.Type expected, got %T", v)
	}
	if iv.T == nil {
		return nil
	}
	rt, ok := iv.V.(*RType)
	if !ok {
		st.unsupported("opaque reflect.Type")
	}
	return rt
}

func asRVal(st *State, v Value) *RVal {
	r, ok := v.(*RVal)
	if !ok {
		st.unsupported("reflect.Value expected, got %T", v)
	}
	return r
}

func (st *State) rpanic(format string, args ...interface{}) {
	msg := fmt.Sprintf(format, args...)
	if st.E.Trace {
		fmt.Printf("    reflect panic %s @%s\n", msg, st.whereAmI())
	}
	st.throw(&PanicInfo{Kind: "reflect", Detail: msg, Val: &IfaceV{T: types.Typ[types.String], V: StrT(msg)}})
}

// payload reads the current payload of a Value.
func (st *State) rpayload(v *RVal) Value {
	if v.Ref != nil {
		return st.load(v.Ref)
	}
	return v.Val
}

// zeroPayload is the zero payload of a kind/type.
func (e *Engine) zeroPayload(rt *RType) Value {
	if gt := kindGoType(rt.Kind); gt != nil {
		return e.Zero(gt)
	}
	if rt.GoType != nil {
		return e.Zero(rt.GoType)
	}
	return &IfaceV{}
}

// convertPayload converts a scalar payload between basic kinds with Go's
// conversion semantics.
func (st *State) convertPayload(p Value, from, to int) Value {
	ft, tt := kindGoType(from), kindGoType(to)
	if ft == nil || tt == nil {
		st.unsupported("reflect conversion between kinds %s and %s", rkNames[from], rkNames[to])
	}
	if from == to {
		return p
	}
	switch {
	case from == rkString || to == rkString:
		if from == to {
			return p
		}
		if (isSignedKind(from) || isUnsignedKind(from)) && to == rkString {
			return st.convert(p, ft, tt)
		}
		st.unsupported("reflect conversion %s -> %s", rkNames[from], rkNames[to])
	case from == rkBool || to == rkBool:
		st.unsupported("reflect conversion %s -> %s", rkNames[from], rkNames[to])
	case isComplexKind(from) != isComplexKind(to):
		st.rpanic("reflect.Value.Convert: value of type %s cannot be converted to type %s", rkNames[from], rkNames[to])
	}
	return st.convert(p, ft, tt)
}

func (st *State) rkindCheck(v *RVal, method string, ok bool) {
	if !ok {
		st.rpanic("reflect: call of reflect.Value.%s on %s Value", method, rkNames[v.Kind])
	}
}

func (st *State) rsettable(v *RVal, method string) {
	if v.Kind == rkInvalid {
		st.rpanic("reflect: call of reflect.Value.%s on zero Value", method)
	}
	if v.Ref == nil {
		st.rpanic("reflect: reflect.Value.%s using unaddressable value", method)
	}
}

// deepEqual: reflect.DeepEqual on values of the same static type: arrays and structs element-wise,
// pointers equal if identical or if their pointees are deeply equal, slices by length and elements.
func (st *State) deepEqual(a, b Value, depth int) *Term {
	if depth > 8 {
		st.unsupported("reflect.DeepEqual: nesting deeper than 8")
	}
	switch x := a.(type) {
	case *Term:
		if y, ok := b.(*Term); ok {
			return st.eqValues(x, y)
		}
	case *StructV:
		if y, ok := b.(*StructV); ok && len(x.F) == len(y.F) {
			var cs []*Term
			for i := range x.F {
				cs = append(cs, st.deepEqual(x.F[i], y.F[i], depth+1))
			}
			return And(cs...)
		}
	case *ArrayV:
		if y, ok := b.(*ArrayV); ok && len(x.E) == len(y.E) {
			var cs []*Term
			for i := range x.E {
				cs = append(cs, st.deepEqual(x.E[i], y.E[i], depth+1))
			}
			return And(cs...)
		}
	case *PtrV:
		if y, ok := b.(*PtrV); ok {
			if x.Obj == nil || y.Obj == nil {
				return BoolT(x.Obj == nil && y.Obj == nil)
			}
			if st.Branch(st.eqValues(x, y)) {
				return TrueT
			}
			return st.deepEqual(st.load(x), st.load(y), depth+1)
		}
	case *IfaceV:
		if y, ok := b.(*IfaceV); ok {
			if x.T == nil || y.T == nil {
				return BoolT(x.T == nil && y.T == nil)
			}
			if !types.Identical(x.T, y.T) {
				return FalseT
			}
			return st.deepEqual(x.V, y.V, depth+1)
		}
	case *SliceV:
		if y, ok := b.(*SliceV); ok {
			if (x.Obj == nil) != (y.Obj == nil) {
				return FalseT
			}
			if x.Len != y.Len {
				return FalseT
			}
			ex, ey := st.sliceElems(x), st.sliceElems(y)
			var cs []*Term
			for i := range ex {
				cs = append(cs, st.deepEqual(ex[i], ey[i], depth+1))
			}
			return And(cs...)
		}
	}
	st.unsupported("reflect.DeepEqual on %T / %T", a, b)
	return nil
}

func registerReflectModel(e *Engine) {
	H := e.Hooks
	i64, u64 := types.Typ[types.Int64], types.Typ[types.Uint64]
	f64 := types.Typ[types.Float64]
	e.zeroHooks = append(e.zeroHooks, func(t types.Type) (Value, bool) {
		if n, ok := t.(*types.Named); ok && n.Obj().Pkg() != nil && n.Obj().Pkg().Path() == "reflect" && n.Obj().Name() == "Value" {
			return &RVal{}, true
		}
		return nil, false
	})
	prevEq := e.eqHook
	e.eqHook = func(st *State, a, b Value) (*Term, bool) {
		if x, ok := a.(*RType); ok {
			y, ok2 := b.(*RType)
			if !ok2 {
				return FalseT, true
			}
			if x == y {
				return TrueT, true
			}
			if x.GoType != nil && y.GoType != nil {
				return BoolT(types.Identical(x.GoType, y.GoType) && x.Kind == y.Kind), true
			}
			return BoolT(x.Kind == y.Kind && x.GoType == nil && y.GoType == nil && kindGoType(x.Kind) != nil), true
		}
		if x, ok := a.(*RVal); ok {
			// reflect.Value is a comparable struct (typ, ptr, flag): model by kind and payload identity
			y, ok2 := b.(*RVal)
			if !ok2 || x.Kind != y.Kind {
				return FalseT, true
			}
			if x.Ref != nil || y.Ref != nil {
				if x.Ref == nil || y.Ref == nil {
					return FalseT, true
				}
				return st.eqValues(x.Ref, y.Ref), true
			}
			if fx, ok := x.Val.(*FuncV); ok {
				fy, ok2 := y.Val.(*FuncV)
				return BoolT(ok2 && fx.Fn == fy.Fn && fx.ID == fy.ID && fx.Native == fy.Native), true
			}
			if x.Val == nil || y.Val == nil {
				return BoolT(x.Val == nil && y.Val == nil), true
			}
			return st.eqValues(x.Val, y.Val), true
		}
		if prevEq != nil {
			return prevEq(st, a, b)
		}
		return nil, false
	}

	H["reflect.TypeOf"] = func(st *State, a []Value) Value {
		iv := a[0].(*IfaceV)
		if iv.T == nil {
			return &IfaceV{}
		}
		return rtypeIface(st.E.rtypeOfGo(iv.T))
	}
	// type constructors, through go/types
	goT := func(st *State, v Value, what string) types.Type {
		rt := asRType(st, v)
		if rt == nil {
			st.rpanic("reflect: %s of nil type", what)
		}
		if rt.GoType != nil {
			return rt.GoType
		}
		if gt := kindGoType(rt.Kind); gt != nil {
			return gt
		}
		st.unsupported("reflect.%s on a type without a Go type", what)
		return nil
	}
	ptrTo := func(st *State, a []Value) Value {
		return rtypeIface(st.E.rtypeOfGo(types.NewPointer(goT(st, a[0], "PointerTo"))))
	}
	H["reflect.PtrTo"] = ptrTo
	H["reflect.PointerTo"] = ptrTo
	H["reflect.SliceOf"] = func(st *State, a []Value) Value {
		return rtypeIface(st.E.rtypeOfGo(types.NewSlice(goT(st, a[0], "SliceOf"))))
	}
	H["reflect.ArrayOf"] = func(st *State, a []Value) Value {
		n := st.concreteInt(a[0], "array length")
		return rtypeIface(st.E.rtypeOfGo(types.NewArray(goT(st, a[1], "ArrayOf"), int64(n))))
	}
	H["reflect.MapOf"] = func(st *State, a []Value) Value {
		return rtypeIface(st.E.rtypeOfGo(types.NewMap(goT(st, a[0], "MapOf"), goT(st, a[1], "MapOf"))))
	}
	H["reflect.ChanOf"] = func(st *State, a []Value) Value {
		d := st.concreteInt(a[0], "channel direction")
		dir := types.SendRecv
		switch d {
		case 1:
			dir = types.RecvOnly
		case 2:
			dir = types.SendOnly
		}
		return rtypeIface(st.E.rtypeOfGo(types.NewChan(dir, goT(st, a[1], "ChanOf"))))
	}
	H["reflect.FuncOf"] = func(st *State, a []Value) Value {
		vars := func(v Value) []*types.Var {
			var r []*types.Var
			if sl, ok := v.(*SliceV); ok {
				for _, e := range st.sliceElems(sl) {
					r = append(r, types.NewVar(token.NoPos, nil, "", goT(st, e, "FuncOf")))
				}
			}
			return r
		}
		variadic := false
		if t, ok := a[2].(*Term); ok && t.Const {
			variadic = t.CB
		} else {
			st.unsupported("reflect.FuncOf with a symbolic variadic flag")
		}
		sig := types.NewSignatureType(nil, nil, nil, types.NewTuple(vars(a[0])...), types.NewTuple(vars(a[1])...), variadic)
		return rtypeIface(st.E.rtypeOfGo(sig))
	}
	// StructOf: fields are reflect.StructField values {Name, PkgPath, Type, Tag, Offset, Index, Anonymous}
	H["reflect.StructOf"] = func(st *State, a []Value) Value {
		var fields []*types.Var
		var tags []string
		if sl, ok := a[0].(*SliceV); ok {
			for _, e := range st.sliceElems(sl) {
				f := e.(*StructV)
				name := constStr(st, f.F[0], "struct field name")
				ft := goT(st, f.F[2], "StructOf")
				anon := false
				if t, ok := f.F[6].(*Term); ok && t.Const {
					anon = t.CB
				}
				tag := ""
				if t, ok := f.F[3].(*Term); ok && t.Const {
					tag = t.CS
				}
				fields = append(fields, types.NewField(token.NoPos, nil, name, ft, anon))
				tags = append(tags, tag)
			}
		}
		return rtypeIface(st.E.rtypeOfGo(types.NewStruct(fields, tags)))
	}
	H["reflect.ValueOf"] = func(st *State, a []Value) Value {
		iv, _ := a[0].(*IfaceV)
		if iv == nil || iv.T == nil {
			return &RVal{}
		}
		rt := st.E.rtypeOfGo(iv.T)
		return &RVal{Kind: rt.Kind, Typ: rt, Val: iv.V}
	}
	H["reflect.New"] = func(st *State, a []Value) Value {
		rt := asRType(st, a[0])
		if rt == nil {
			st.rpanic("reflect: New(nil)")
		}
		o := st.newObject(rt.GoType, "reflect.New", st.E.zeroPayload(rt))
		pt := &RType{Kind: rkPtr, Elem: rt}
		if gt := rt.GoType; gt != nil {
			pt.GoType = types.NewPointer(gt)
		} else if gt := kindGoType(rt.Kind); gt != nil {
			pt.GoType = types.NewPointer(gt)
		}
		return &RVal{Kind: rkPtr, Typ: pt, Val: &PtrV{Obj: o}}
	}
	H["reflect.Zero"] = func(st *State, a []Value) Value {
		rt := asRType(st, a[0])
		return &RVal{Kind: rt.Kind, Typ: rt, Val: st.E.zeroPayload(rt)}
	}
	// DeepEqual on reflect.Type values (what yaegi compares with it) and on scalars
	H["reflect.DeepEqual"] = func(st *State, a []Value) Value {
		x, ok1 := a[0].(*IfaceV)
		y, ok2 := a[1].(*IfaceV)
		if !ok1 || !ok2 {
			st.unsupported("reflect.DeepEqual on %T / %T", a[0], a[1])
		}
		if x.T == nil || y.T == nil {
			return BoolT(x.T == nil && y.T == nil)
		}
		if x.T == rtypeDyn && y.T == rtypeDyn {
			rx, ry := x.V.(*RType), y.V.(*RType)
			if rx.GoType != nil && ry.GoType != nil {
				return BoolT(types.Identical(rx.GoType, ry.GoType))
			}
			return BoolT(rx.Kind == ry.Kind && rx.GoType == nil && ry.GoType == nil)
		}
		if !types.Identical(x.T, y.T) {
			return FalseT
		}
		if _, isT := x.V.(*Term); isT {
			return st.eqValues(x.V, y.V)
		}
		return st.deepEqual(x.V, y.V, 0)
	}
	H["reflect.MakeMap"] = func(st *State, a []Value) Value {
		rt := asRType(st, a[0])
		if rt == nil || rt.Kind != rkMap {
			st.rpanic("reflect.MakeMap of non-map type")
		}
		o := st.newObject(rt.GoType, "reflect.MakeMap", &MapData{})
		return &RVal{Kind: rkMap, Typ: rt, Val: &MapV{Obj: o}}
	}
	H["reflect.MakeMapWithSize"] = H["reflect.MakeMap"]
	H["reflect.MakeSlice"] = func(st *State, a []Value) Value {
		rt := asRType(st, a[0])
		if rt == nil || rt.Kind != rkSlice {
			st.rpanic("reflect.MakeSlice of non-slice type")
		}
		n, c := st.concreteInt(a[1], "slice length"), st.concreteInt(a[2], "slice capacity")
		et := rt.GoType.Underlying().(*types.Slice).Elem()
		return &RVal{Kind: rkSlice, Typ: rt, Val: st.makeSlice(et, n, c)}
	}
	H["reflect.Indirect"] = func(st *State, a []Value) Value {
		v := asRVal(st, a[0])
		if v.Kind != rkPtr {
			return v
		}
		ptr := st.rpayload(v).(*PtrV)
		if ptr.Obj == nil {
			return &RVal{}
		}
		return &RVal{Kind: v.Typ.Elem.Kind, Typ: v.Typ.Elem, Ref: ptr}
	}
	H["reflect.Copy"] = func(st *State, a []Value) Value {
		d, sv := asRVal(st, a[0]), asRVal(st, a[1])
		dst, ok1 := st.rpayload(d).(*SliceV)
		src, ok2 := st.rpayload(sv).(*SliceV)
		if !ok1 || !ok2 {
			st.unsupported("reflect.Copy on %s / %s", rkNames[d.Kind], rkNames[sv.Kind])
		}
		n := dst.Len
		if src.Len < n {
			n = src.Len
		}
		el := st.sliceElems(src)
		for i := 0; i < n; i++ {
			st.store(&PtrV{Obj: dst.Obj, Path: []int{dst.Off + i}}, el[i])
		}
		return st.E.intTerm(big.NewInt(int64(n)), types.Typ[types.Int])
	}
	// appendVals mimics the builtin: in place when the capacity allows, else a new array
	appendVals := func(st *State, cur *SliceV, add []Value) *SliceV {
		if len(add) == 0 {
			return cur
		}
		nl := cur.Len + len(add)
		if cur.Obj != nil && nl <= cur.Cap {
			arr := st.get(cur.Obj).(*ArrayV)
			ne := append([]Value(nil), arr.E...)
			copy(ne[cur.Off+cur.Len:], add)
			st.set(cur.Obj, &ArrayV{E: ne})
			return &SliceV{Obj: cur.Obj, Off: cur.Off, Len: nl, Cap: cur.Cap}
		}
		ne := append(append([]Value(nil), st.sliceElems(cur)...), add...)
		o := st.newObject(nil, "reflect.Append", &ArrayV{E: ne})
		return &SliceV{Obj: o, Len: nl, Cap: nl}
	}
	H["reflect.AppendSlice"] = func(st *State, a []Value) Value {
		sv, tv := asRVal(st, a[0]), asRVal(st, a[1])
		cur, _ := st.rpayload(sv).(*SliceV)
		if cur == nil {
			cur = &SliceV{}
		}
		add, _ := st.rpayload(tv).(*SliceV)
		var more []Value
		if add != nil {
			more = st.sliceElems(add)
		}
		return &RVal{Kind: rkSlice, Typ: sv.Typ, Val: appendVals(st, cur, more)}
	}
	H["reflect.Append"] = func(st *State, a []Value) Value {
		s := asRVal(st, a[0])
		if s.Kind != rkSlice {
			st.rpanic("reflect.Append: not a slice")
		}
		cur, _ := st.rpayload(s).(*SliceV)
		if cur == nil {
			cur = &SliceV{}
		}
		var add []Value
		if xs, ok := a[1].(*SliceV); ok {
			var et types.Type
			if s.Typ != nil && s.Typ.GoType != nil {
				if sl, ok := s.Typ.GoType.Underlying().(*types.Slice); ok {
					et = sl.Elem()
				}
			}
			for _, x := range st.sliceElems(xs) {
				xv := asRVal(st, x)
				p := st.rpayload(xv)
				// a concrete value appended to a slice of interfaces is boxed
				if _, isI := p.(*IfaceV); !isI && xv.Kind != rkInterface && et != nil && types.IsInterface(et) {
					gt := xv.Typ.GoType
					if gt == nil {
						gt = kindGoType(xv.Kind)
					}
					p = &IfaceV{T: gt, V: p}
				}
				add = append(add, p)
			}
		}
		return &RVal{Kind: rkSlice, Typ: s.Typ, Val: appendVals(st, cur, add)}
	}
	H["reflect.MakeFunc"] = func(st *State, a []Value) Value {
		rt := asRType(st, a[0])
		if rt == nil {
			rt = &RType{Kind: rkFunc}
		}
		if body, ok := a[1].(*FuncV); ok && body.Made == nil {
			if sig, ok := rt.GoType.(*types.Signature); ok {
				mf := *body
				mf.Made = sig
				return &RVal{Kind: rkFunc, Typ: rt, Val: &mf}
			}
		}
		return &RVal{Kind: rkFunc, Typ: rt, Val: a[1]}
	}

	// reflect.Select: delegated to the harness function vhSelectModel(cases) if it
	// exists (it may run another activation first: that is a preemption point).
	H["reflect.Select"] = func(st *State, a []Value) Value {
		if f := st.E.harnessFunc("vhSelectModel"); f != nil {
			return st.callFn(f, a, nil, nil)
		}
		st.unsupported("reflect.Select without a harness model")
		return nil
	}
	// ---- Type methods (invoked through the interface) ----
	tm := func(name string, f func(st *State, rt *RType, a []Value) Value) {
		H["(symreflect.rtype)."+name] = func(st *State, a []Value) Value {
			rt, ok := a[0].(*RType)
			if !ok {
				st.unsupported("reflect.Type method on %T", a[0])
			}
			return f(st, rt, a[1:])
		}
	}
	tm("Kind", func(st *State, rt *RType, a []Value) Value {
		return st.E.intTerm(big.NewInt(int64(rt.Kind)), types.Typ[types.Uint])
	})
	tm("Elem", func(st *State, rt *RType, a []Value) Value {
		if rt.Elem == nil {
			st.rpanic("reflect: Elem of invalid type")
		}
		return rtypeIface(rt.Elem)
	})
	tm("String", func(st *State, rt *RType, a []Value) Value {
		if rt.GoType != nil {
			return StrT(types.TypeString(rt.GoType, func(p *types.Package) string { return p.Name() }))
		}
		return StrT(rkNames[rt.Kind])
	})
	tm("Name", func(st *State, rt *RType, a []Value) Value {
		switch t := rt.GoType.(type) {
		case *types.Named:
			return StrT(t.Obj().Name())
		case *types.Basic:
			return StrT(t.Name())
		case nil:
			return StrT(rkNames[rt.Kind])
		}
		return StrT("")
	})
	tm("Implements", func(st *State, rt *RType, a []Value) Value {
		u := asRType(st, a[0])
		if u == nil || u.Kind != rkInterface {
			st.rpanic("reflect: non-interface type passed to Type.Implements")
		}
		if isConstantValueIface(u.GoType) {
			return BoolT(rt.ConstImpl || (rt.Kind == rkInterface && isConstantValueIface(rt.GoType)))
		}
		if rt.GoType != nil && u.GoType != nil {
			if it, ok := u.GoType.Underlying().(*types.Interface); ok {
				return BoolT(types.Implements(rt.GoType, it))
			}
		}
		st.unsupported("Type.Implements on types without a Go type")
		return nil
	})
	goTypeOf := func(rt *RType) types.Type {
		if rt.GoType != nil {
			return rt.GoType
		}
		return kindGoType(rt.Kind)
	}
	structOf := func(st *State, rt *RType, what string) *types.Struct {
		if rt.GoType != nil {
			if sv, ok := rt.GoType.Underlying().(*types.Struct); ok {
				return sv
			}
		}
		st.rpanic("reflect: %s of non-struct type", what)
		return nil
	}
	// a reflect.StructField value: {Name, PkgPath, Type, Tag, Offset, Index, Anonymous}
	structField := func(st *State, sv *types.Struct, i int) Value {
		f := sv.Field(i)
		pkg := ""
		if !f.Exported() && f.Pkg() != nil {
			pkg = f.Pkg().Path()
		}
		idx := st.newObject(nil, "fieldindex", &ArrayV{E: []Value{st.E.intTerm(big.NewInt(int64(i)), types.Typ[types.Int])}})
		return &StructV{F: []Value{StrT(f.Name()), StrT(pkg), rtypeIface(st.E.rtypeOfGo(f.Type())), StrT(sv.Tag(i)),
			st.E.intTerm(big.NewInt(int64(8*i)), types.Typ[types.Uintptr]), &SliceV{Obj: idx, Len: 1, Cap: 1}, BoolT(f.Embedded())}}
	}
	tm("NumField", func(st *State, rt *RType, a []Value) Value {
		return st.E.intTerm(big.NewInt(int64(structOf(st, rt, "NumField").NumFields())), types.Typ[types.Int])
	})
	tm("Field", func(st *State, rt *RType, a []Value) Value {
		sv := structOf(st, rt, "Field")
		i := st.concreteInt(a[0], "field index")
		if i < 0 || i >= sv.NumFields() {
			st.rpanic("reflect: Field index out of bounds")
		}
		return structField(st, sv, i)
	})
	tm("FieldByName", func(st *State, rt *RType, a []Value) Value {
		sv := structOf(st, rt, "FieldByName")
		name := constStr(st, a[0], "field name")
		for i := 0; i < sv.NumFields(); i++ {
			if sv.Field(i).Name() == name {
				return TupleV{structField(st, sv, i), TrueT}
			}
		}
		zero := &StructV{F: []Value{StrT(""), StrT(""), &IfaceV{}, StrT(""), st.E.intTerm(big.NewInt(0), types.Typ[types.Uintptr]), &SliceV{}, FalseT}}
		return TupleV{zero, FalseT}
	})
	tm("Key", func(st *State, rt *RType, a []Value) Value {
		if rt.GoType != nil {
			if m, ok := rt.GoType.Underlying().(*types.Map); ok {
				return rtypeIface(st.E.rtypeOfGo(m.Key()))
			}
		}
		st.rpanic("reflect: Key of non-map type")
		return nil
	})
	tm("Len", func(st *State, rt *RType, a []Value) Value {
		if rt.GoType != nil {
			if at, ok := rt.GoType.Underlying().(*types.Array); ok {
				return st.E.intTerm(big.NewInt(at.Len()), types.Typ[types.Int])
			}
		}
		st.rpanic("reflect: Len of non-array type")
		return nil
	})
	tm("PkgPath", func(st *State, rt *RType, a []Value) Value {
		if n, ok := rt.GoType.(*types.Named); ok && n.Obj().Pkg() != nil {
			return StrT(n.Obj().Pkg().Path())
		}
		return StrT("")
	})
	// MethodByName on a type: {Name, PkgPath, Type, Func, Index}, ok
	tm("MethodByName", func(st *State, rt *RType, a []Value) Value {
		name := constStr(st, a[0], "method name")
		zero := &StructV{F: []Value{StrT(""), StrT(""), &IfaceV{}, &RVal{}, st.E.intTerm(big.NewInt(0), types.Typ[types.Int])}}
		gt := goTypeOf(rt)
		if gt == nil {
			return TupleV{zero, FalseT}
		}
		ms := st.E.P.Prog.MethodSets.MethodSet(gt)
		idx := 0
		for i := 0; i < ms.Len(); i++ {
			sel := ms.At(i)
			if !sel.Obj().Exported() && !types.IsInterface(gt) {
				continue
			}
			if sel.Obj().Name() == name {
				sig := sel.Type().(*types.Signature)
				ps := []*types.Var{}
				if !types.IsInterface(gt) {
					ps = append(ps, types.NewVar(token.NoPos, nil, "", gt))
				}
				for j := 0; j < sig.Params().Len(); j++ {
					ps = append(ps, sig.Params().At(j))
				}
				ft := types.NewSignatureType(nil, nil, nil, types.NewTuple(ps...), sig.Results(), sig.Variadic())
				var fn Value = &RVal{}
				if f := st.E.P.Prog.MethodValue(sel); f != nil {
					frt := st.E.rtypeOfGo(ft)
					fn = &RVal{Kind: frt.Kind, Typ: frt, Val: &FuncV{Fn: f}}
				}
				m := &StructV{F: []Value{StrT(name), StrT(""), rtypeIface(st.E.rtypeOfGo(ft)), fn, st.E.intTerm(big.NewInt(int64(idx)), types.Typ[types.Int])}}
				return TupleV{m, TrueT}
			}
			idx++
		}
		return TupleV{zero, FalseT}
	})
	// Method(i) on a type: the i-th method of the sorted method set (exported ones for non-interfaces)
	tm("Method", func(st *State, rt *RType, a []Value) Value {
		gt := goTypeOf(rt)
		if gt == nil {
			st.unsupported("Type.Method on a type without a Go type")
		}
		want := st.concreteInt(a[0], "method index")
		ms := st.E.P.Prog.MethodSets.MethodSet(gt)
		idx := 0
		for i := 0; i < ms.Len(); i++ {
			sel := ms.At(i)
			if !sel.Obj().Exported() && !types.IsInterface(gt) {
				continue
			}
			if idx == want {
				sig := sel.Type().(*types.Signature)
				ps := []*types.Var{}
				if !types.IsInterface(gt) {
					ps = append(ps, types.NewVar(token.NoPos, nil, "", gt))
				}
				for j := 0; j < sig.Params().Len(); j++ {
					ps = append(ps, sig.Params().At(j))
				}
				ft := types.NewSignatureType(nil, nil, nil, types.NewTuple(ps...), sig.Results(), sig.Variadic())
				return &StructV{F: []Value{StrT(sel.Obj().Name()), StrT(""), rtypeIface(st.E.rtypeOfGo(ft)), &RVal{}, st.E.intTerm(big.NewInt(int64(idx)), types.Typ[types.Int])}}
			}
			idx++
		}
		st.rpanic("reflect: Method index out of range")
		return nil
	})
	tm("NumMethod", func(st *State, rt *RType, a []Value) Value {
		gt := goTypeOf(rt)
		if gt == nil {
			st.unsupported("Type.NumMethod on a type without a Go type")
		}
		n := 0
		ms := st.E.P.Prog.MethodSets.MethodSet(gt)
		for i := 0; i < ms.Len(); i++ {
			if ms.At(i).Obj().Exported() || types.IsInterface(gt) {
				n++
			}
		}
		return st.E.intTerm(big.NewInt(int64(n)), types.Typ[types.Int])
	})
	tm("Comparable", func(st *State, rt *RType, a []Value) Value {
		gt := goTypeOf(rt)
		if gt == nil {
			st.unsupported("Type.Comparable on a type without a Go type")
		}
		return BoolT(types.Comparable(gt))
	})
	tm("AssignableTo", func(st *State, rt *RType, a []Value) Value {
		u := asRType(st, a[0])
		if u == nil {
			st.rpanic("reflect: nil type passed to Type.AssignableTo")
		}
		g1, g2 := goTypeOf(rt), goTypeOf(u)
		if g1 == nil || g2 == nil {
			st.unsupported("Type.AssignableTo on types without a Go type")
		}
		return BoolT(types.AssignableTo(g1, g2))
	})
	tm("ConvertibleTo", func(st *State, rt *RType, a []Value) Value {
		u := asRType(st, a[0])
		if u == nil {
			st.rpanic("reflect: nil type passed to Type.ConvertibleTo")
		}
		g1, g2 := goTypeOf(rt), goTypeOf(u)
		if g1 == nil || g2 == nil {
			st.unsupported("Type.ConvertibleTo on types without a Go type")
		}
		return BoolT(types.ConvertibleTo(g1, g2))
	})
	sigOf := func(st *State, rt *RType, what string) *types.Signature {
		if rt.GoType != nil {
			if sg, ok := rt.GoType.Underlying().(*types.Signature); ok {
				return sg
			}
		}
		st.rpanic("reflect: %s of non-func type", what)
		return nil
	}
	idx := func(st *State, v Value, n int, what string) int {
		i := st.concreteInt(v, what)
		if i < 0 || i >= n {
			st.rpanic("reflect: %s index out of range", what)
		}
		return i
	}
	tm("IsVariadic", func(st *State, rt *RType, a []Value) Value { return BoolT(sigOf(st, rt, "IsVariadic").Variadic()) })
	tm("NumIn", func(st *State, rt *RType, a []Value) Value {
		return st.E.intTerm(big.NewInt(int64(sigOf(st, rt, "NumIn").Params().Len())), types.Typ[types.Int])
	})
	tm("NumOut", func(st *State, rt *RType, a []Value) Value {
		return st.E.intTerm(big.NewInt(int64(sigOf(st, rt, "NumOut").Results().Len())), types.Typ[types.Int])
	})
	tm("In", func(st *State, rt *RType, a []Value) Value {
		ps := sigOf(st, rt, "In").Params()
		return rtypeIface(st.E.rtypeOfGo(ps.At(idx(st, a[0], ps.Len(), "In")).Type()))
	})
	tm("Out", func(st *State, rt *RType, a []Value) Value {
		rs := sigOf(st, rt, "Out").Results()
		return rtypeIface(st.E.rtypeOfGo(rs.At(idx(st, a[0], rs.Len(), "Out")).Type()))
	})
	tm("Bits", func(st *State, rt *RType, a []Value) Value {
		bits := map[int]int64{rkInt: 64, rkInt8: 8, rkInt16: 16, rkInt32: 32, rkInt64: 64, rkUint: 64, rkUint8: 8, rkUint16: 16, rkUint32: 32, rkUint64: 64, rkUintptr: 64, rkFloat32: 32, rkFloat64: 64, rkComplex64: 64, rkComplex128: 128}
		return st.E.intTerm(big.NewInt(bits[rt.Kind]), types.Typ[types.Int])
	})

	// ---- Value methods ----
	vm := func(name string, f func(st *State, v *RVal, a []Value) Value) {
		H["(reflect.Value)."+name] = func(st *State, a []Value) Value { return f(st, asRVal(st, a[0]), a[1:]) }
	}
	vm("IsValid", func(st *State, v *RVal, a []Value) Value { return BoolT(v.Kind != rkInvalid) })
	vm("Kind", func(st *State, v *RVal, a []Value) Value {
		return st.E.intTerm(big.NewInt(int64(v.Kind)), types.Typ[types.Uint])
	})
	vm("Type", func(st *State, v *RVal, a []Value) Value {
		if v.Kind == rkInvalid {
			st.rpanic("reflect: call of reflect.Value.Type on zero Value")
		}
		return rtypeIface(v.Typ)
	})
	vm("CanSet", func(st *State, v *RVal, a []Value) Value { return BoolT(v.Ref != nil) })
	vm("CanAddr", func(st *State, v *RVal, a []Value) Value { return BoolT(v.Ref != nil) })
	// no Value of the model is obtained through an unexported field (flagRO is not tracked)
	vm("CanInterface", func(st *State, v *RVal, a []Value) Value {
		if v.Kind == rkInvalid {
			st.rpanic("reflect.Value.CanInterface: cannot call CanInterface on zero Value")
		}
		return TrueT
	})
	vm("Interface", func(st *State, v *RVal, a []Value) Value {
		if v.Kind == rkInvalid {
			st.rpanic("reflect: call of reflect.Value.Interface on zero Value")
		}
		p := st.rpayload(v)
		if v.Kind == rkInterface {
			if iv, ok := p.(*IfaceV); ok {
				return iv
			}
		}
		gt := v.Typ.GoType
		if gt == nil {
			gt = kindGoType(v.Kind)
		}
		if gt == nil && v.Kind == rkPtr && v.Typ.Elem != nil {
			// a pointer type made by New/Addr: derive it from its element type
			et := v.Typ.Elem.GoType
			if et == nil {
				et = kindGoType(v.Typ.Elem.Kind)
			}
			if et != nil {
				gt = types.NewPointer(et)
			}
		}
		if gt == nil {
			st.unsupported("Interface() of a value without a Go type")
		}
		return &IfaceV{T: gt, V: p}
	})
	vm("Int", func(st *State, v *RVal, a []Value) Value {
		st.rkindCheck(v, "Int", isSignedKind(v.Kind))
		return st.convert(st.rpayload(v), kindGoType(v.Kind), i64)
	})
	vm("Uint", func(st *State, v *RVal, a []Value) Value {
		st.rkindCheck(v, "Uint", isUnsignedKind(v.Kind))
		return st.convert(st.rpayload(v), kindGoType(v.Kind), u64)
	})
	vm("Float", func(st *State, v *RVal, a []Value) Value {
		st.rkindCheck(v, "Float", isFloatKind(v.Kind))
		return st.convert(st.rpayload(v), kindGoType(v.Kind), f64)
	})
	vm("Complex", func(st *State, v *RVal, a []Value) Value {
		st.rkindCheck(v, "Complex", isComplexKind(v.Kind))
		return st.convert(st.rpayload(v), kindGoType(v.Kind), types.Typ[types.Complex128])
	})
	vm("Bool", func(st *State, v *RVal, a []Value) Value {
		st.rkindCheck(v, "Bool", v.Kind == rkBool)
		return st.rpayload(v)
	})
	vm("String", func(st *State, v *RVal, a []Value) Value {
		if v.Kind != rkString {
			return StrT("<" + rkNames[v.Kind] + " Value>")
		}
		return st.rpayload(v)
	})
	vm("IsNil", func(st *State, v *RVal, a []Value) Value {
		p := st.rpayload(v)
		switch x := p.(type) {
		case *IfaceV:
			return BoolT(x.T == nil)
		case *PtrV:
			return BoolT(x.Obj == nil)
		case *FuncV:
			return BoolT(x.IsNil())
		case *SliceV:
			return BoolT(x.Obj == nil)
		case *MapV:
			return BoolT(x.Obj == nil)
		case *ChanV:
			return BoolT(x.Obj == nil)
		}
		st.rpanic("reflect: call of reflect.Value.IsNil on %s Value", rkNames[v.Kind])
		return nil
	})
	vm("IsZero", func(st *State, v *RVal, a []Value) Value {
		if v.Kind == rkInvalid {
			st.rpanic("reflect: call of reflect.Value.IsZero on zero Value")
		}
		var isZero func(p Value) *Term
		isZero = func(p Value) *Term {
			switch x := p.(type) {
			case *Term:
				switch x.Sort {
				case SBool:
					return Not(x)
				case SString:
					return Eq(x, StrT(""))
				case SFP:
					// +0 only (IsZero compares the bits)
					return mk(SBool, 0, "(and (fp.isZero %s) (not (fp.isNegative %s)))", x.S, x.S)
				case SBV:
					return Eq(x, &Term{S: fmt.Sprintf("(_ bv0 %d)", x.W), Sort: SBV, W: x.W, Const: true, CI: big.NewInt(0)})
				}
				return Eq(x, IntT64(0))
			case *IfaceV:
				return BoolT(x.T == nil)
			case *PtrV:
				return BoolT(x.Obj == nil)
			case *FuncV:
				return BoolT(x.IsNil())
			case *SliceV:
				return BoolT(x.Obj == nil)
			case *MapV:
				return BoolT(x.Obj == nil)
			case *ChanV:
				return BoolT(x.Obj == nil)
			case *RVal:
				// a reflect.Value held in a struct field: zero iff it is the invalid Value
				return BoolT(x.Kind == rkInvalid)
			case *RType:
				return FalseT
			case nil:
				return TrueT
			case *StructV:
				r := TrueT
				for _, f := range x.F {
					r = And(r, isZero(f))
				}
				return r
			case *ArrayV:
				r := TrueT
				for _, f := range x.E {
					r = And(r, isZero(f))
				}
				return r
			}
			st.unsupported("reflect.Value.IsZero on %T", p)
			return nil
		}
		return isZero(st.rpayload(v))
	})
	vm("SetInt", func(st *State, v *RVal, a []Value) Value {
		st.rsettable(v, "SetInt")
		st.rkindCheck(v, "SetInt", isSignedKind(v.Kind))
		st.store(v.Ref, st.convert(a[0], i64, kindGoType(v.Kind)))
		return nil
	})
	vm("SetUint", func(st *State, v *RVal, a []Value) Value {
		st.rsettable(v, "SetUint")
		st.rkindCheck(v, "SetUint", isUnsignedKind(v.Kind))
		st.store(v.Ref, st.convert(a[0], u64, kindGoType(v.Kind)))
		return nil
	})
	vm("SetFloat", func(st *State, v *RVal, a []Value) Value {
		st.rsettable(v, "SetFloat")
		st.rkindCheck(v, "SetFloat", isFloatKind(v.Kind))
		st.store(v.Ref, st.convert(a[0], f64, kindGoType(v.Kind)))
		return nil
	})
	vm("SetComplex", func(st *State, v *RVal, a []Value) Value {
		st.rsettable(v, "SetComplex")
		st.rkindCheck(v, "SetComplex", isComplexKind(v.Kind))
		st.store(v.Ref, st.convert(a[0], types.Typ[types.Complex128], kindGoType(v.Kind)))
		return nil
	})
	vm("SetBool", func(st *State, v *RVal, a []Value) Value {
		st.rsettable(v, "SetBool")
		st.rkindCheck(v, "SetBool", v.Kind == rkBool)
		st.store(v.Ref, a[0])
		return nil
	})
	vm("SetString", func(st *State, v *RVal, a []Value) Value {
		st.rsettable(v, "SetString")
		st.rkindCheck(v, "SetString", v.Kind == rkString)
		st.store(v.Ref, a[0])
		return nil
	})
	vm("Set", func(st *State, v *RVal, a []Value) Value {
		st.rsettable(v, "Set")
		x := asRVal(st, a[0])
		if x.Kind == rkInvalid {
			st.rpanic("reflect: call of reflect.Value.Set on zero Value")
		}
		p := st.rpayload(x)
		switch {
		case v.Kind == rkInterface:
			// assignment to an interface-typed cell: store the dynamic value
			if x.Kind == rkInterface {
				st.store(v.Ref, p)
			} else {
				gt := x.Typ.GoType
				if gt == nil {
					gt = kindGoType(x.Kind)
				}
				st.store(v.Ref, &IfaceV{T: gt, V: p})
			}
		case v.Kind != x.Kind:
			st.rpanic("reflect.Set: value of type %s is not assignable to type %s", rkNames[x.Kind], rkNames[v.Kind])
		case v.Typ != nil && x.Typ != nil && v.Typ.GoType != nil && x.Typ.GoType != nil && !types.AssignableTo(x.Typ.GoType, v.Typ.GoType):
			st.rpanic("reflect.Set: value of type %s is not assignable to type %s", x.Typ.GoType, v.Typ.GoType)
		default:
			st.store(v.Ref, p)
		}
		return nil
	})
	vm("Convert", func(st *State, v *RVal, a []Value) Value {
		rt := asRType(st, a[0])
		if v.Kind == rkInvalid {
			st.rpanic("reflect: call of reflect.Value.Convert on zero Value")
		}
		p := st.rpayload(v)
		if rt.Kind == rkInterface {
			if v.Kind == rkInterface {
				return &RVal{Kind: rkInterface, Typ: rt, Val: p}
			}
			gt := v.Typ.GoType
			if gt == nil {
				gt = kindGoType(v.Kind)
			}
			return &RVal{Kind: rkInterface, Typ: rt, Val: &IfaceV{T: gt, V: p}}
		}
		if kindGoType(v.Kind) == nil || kindGoType(rt.Kind) == nil {
			if v.Kind == rt.Kind {
				return &RVal{Kind: rt.Kind, Typ: rt, Val: p}
			}
			// string <-> []byte / []rune, through the engine's own conversion (constant contents)
			if rt.GoType != nil {
				from := v.Typ.GoType
				if from == nil {
					from = kindGoType(v.Kind)
				}
				if from != nil {
					_, toSlice := rt.GoType.Underlying().(*types.Slice)
					_, fromSlice := from.Underlying().(*types.Slice)
					if (v.Kind == rkString && toSlice) || (fromSlice && rt.Kind == rkString) {
						return &RVal{Kind: rt.Kind, Typ: rt, Val: st.convert(p, from, rt.GoType)}
					}
				}
			}
			st.unsupported("Convert between %s and %s", rkNames[v.Kind], rkNames[rt.Kind])
		}
		return &RVal{Kind: rt.Kind, Typ: rt, Val: st.convertPayload(p, v.Kind, rt.Kind)}
	})
	vm("Elem", func(st *State, v *RVal, a []Value) Value {
		p := st.rpayload(v)
		switch v.Kind {
		case rkPtr:
			ptr := p.(*PtrV)
			if ptr.Obj == nil {
				return &RVal{}
			}
			et := v.Typ.Elem
			if et == nil {
				st.unsupported("Elem of a pointer without element type")
			}
			return &RVal{Kind: et.Kind, Typ: et, Ref: ptr}
		case rkInterface:
			iv := p.(*IfaceV)
			if iv.T == nil {
				return &RVal{}
			}
			rt := st.E.rtypeOfGo(iv.T)
			return &RVal{Kind: rt.Kind, Typ: rt, Val: iv.V}
		}
		st.rpanic("reflect: call of reflect.Value.Elem on %s Value", rkNames[v.Kind])
		return nil
	})
	// channel operations of reflect.Value: the non-blocking ones answer
	// nondeterministically (ready or not); the blocking ones are recorded.
	vm("TryRecv", func(st *State, v *RVal, a []Value) Value {
		if st.Branch(st.FreshTerm("chan_ready", SBool, 0)) {
			var et types.Type = types.Typ[types.Bool]
			if v.Typ != nil && v.Typ.GoType != nil {
				if ct, ok := v.Typ.GoType.Underlying().(*types.Chan); ok {
					et = ct.Elem()
				}
			}
			rt := st.E.rtypeOfGo(et)
			return TupleV{&RVal{Kind: rt.Kind, Typ: rt, Val: st.FreshValue("recv", et)}, TrueT}
		}
		return TupleV{&RVal{}, FalseT}
	})
	vm("TrySend", func(st *State, v *RVal, a []Value) Value {
		return st.FreshTerm("chan_ready", SBool, 0)
	})
	vm("Recv", func(st *State, v *RVal, a []Value) Value {
		st.events = append(st.events, Event{Tag: "blocking:Recv"})
		var et types.Type = types.Typ[types.Bool]
		if v.Typ != nil && v.Typ.GoType != nil {
			if ct, ok := v.Typ.GoType.Underlying().(*types.Chan); ok {
				et = ct.Elem()
			}
		}
		rt := st.E.rtypeOfGo(et)
		return TupleV{&RVal{Kind: rt.Kind, Typ: rt, Val: st.FreshValue("recv", et)}, st.FreshTerm("recvok", SBool, 0)}
	})
	vm("Send", func(st *State, v *RVal, a []Value) Value {
		st.events = append(st.events, Event{Tag: "blocking:Send"})
		return nil
	})
	vm("Len", func(st *State, v *RVal, a []Value) Value {
		n := 0
		switch p := st.rpayload(v).(type) {
		case *SliceV:
			n = p.Len
		case *ArrayV:
			n = len(p.E)
		case *MapV:
			k, _ := st.liveEntries(p)
			n = len(k)
		case *Term:
			if p.Sort == SString {
				return st.fromMathInt(st.strLen(p), types.Typ[types.Int])
			}
		}
		return st.E.intTerm(big.NewInt(int64(n)), types.Typ[types.Int])
	})
	fieldOf := func(st *State, v *RVal, i int) *RVal {
		sv, ok := v.Typ.GoType.Underlying().(*types.Struct)
		if !ok {
			st.rpanic("reflect: call of reflect.Value.Field on %s Value", rkNames[v.Kind])
		}
		if i < 0 || i >= sv.NumFields() {
			st.rpanic("reflect: Field index out of range")
		}
		ft := st.E.rtypeOfGo(sv.Field(i).Type())
		if v.Ref != nil {
			np := append(append([]int(nil), v.Ref.Path...), i)
			return &RVal{Kind: ft.Kind, Typ: ft, Ref: &PtrV{Obj: v.Ref.Obj, Path: np}}
		}
		return &RVal{Kind: ft.Kind, Typ: ft, Val: v.Val.(*StructV).F[i]}
	}
	vm("NumField", func(st *State, v *RVal, a []Value) Value {
		sv, ok := v.Typ.GoType.Underlying().(*types.Struct)
		if !ok {
			st.rpanic("reflect: call of reflect.Value.NumField on %s Value", rkNames[v.Kind])
		}
		return st.E.intTerm(big.NewInt(int64(sv.NumFields())), types.Typ[types.Int])
	})
	vm("Field", func(st *State, v *RVal, a []Value) Value { return fieldOf(st, v, st.concreteInt(a[0], "field index")) })
	vm("FieldByIndex", func(st *State, v *RVal, a []Value) Value {
		cur := v
		if sl, ok := a[0].(*SliceV); ok {
			for _, e := range st.sliceElems(sl) {
				if cur.Kind == rkPtr {
					ptr := st.rpayload(cur).(*PtrV)
					if ptr.Obj == nil {
						st.rpanic("reflect: indirection through nil pointer to embedded struct")
					}
					cur = &RVal{Kind: cur.Typ.Elem.Kind, Typ: cur.Typ.Elem, Ref: ptr}
				}
				cur = fieldOf(st, cur, st.concreteInt(e, "field index"))
			}
		}
		return cur
	})
	mapType := func(st *State, v *RVal, what string) *types.Map {
		if v.Typ != nil && v.Typ.GoType != nil {
			if m, ok := v.Typ.GoType.Underlying().(*types.Map); ok {
				return m
			}
		}
		st.rpanic("reflect: call of reflect.Value.%s on %s Value", what, rkNames[v.Kind])
		return nil
	}
	vm("MapIndex", func(st *State, v *RVal, a []Value) Value {
		mt := mapType(st, v, "MapIndex")
		m, _ := st.rpayload(v).(*MapV)
		if m == nil {
			m = &MapV{}
		}
		kv := asRVal(st, a[0])
		if kv.Typ != nil && kv.Typ.GoType != nil && !types.AssignableTo(kv.Typ.GoType, mt.Key()) {
			st.rpanic("reflect.Value.MapIndex: value of type %s is not assignable to type %s", kv.Typ.GoType, mt.Key())
		}
		k := st.rpayload(kv)
		if _, isI := k.(*IfaceV); !isI && kv.Kind != rkInterface && types.IsInterface(mt.Key()) {
			gt := kv.Typ.GoType
			if gt == nil {
				gt = kindGoType(kv.Kind)
			}
			k = &IfaceV{T: gt, V: k}
		}
		val, ok := st.mapLookup(m, k, mt.Elem())
		if !st.Branch(ok) {
			return &RVal{}
		}
		et := st.E.rtypeOfGo(mt.Elem())
		return &RVal{Kind: et.Kind, Typ: et, Val: val}
	})
	vm("SetMapIndex", func(st *State, v *RVal, a []Value) Value {
		mt := mapType(st, v, "SetMapIndex")
		m, _ := st.rpayload(v).(*MapV)
		// a concrete value stored under an interface-typed key or element is boxed
		box := func(x *RVal, t types.Type) Value {
			p := st.rpayload(x)
			if _, isI := p.(*IfaceV); !isI && x.Kind != rkInterface && types.IsInterface(t) {
				gt := x.Typ.GoType
				if gt == nil {
					gt = kindGoType(x.Kind)
				}
				return &IfaceV{T: gt, V: p}
			}
			return p
		}
		if kv := asRVal(st, a[0]); kv.Typ != nil && kv.Typ.GoType != nil && !types.AssignableTo(kv.Typ.GoType, mt.Key()) {
			st.rpanic("reflect.Value.SetMapIndex: value of type %s is not assignable to type %s", kv.Typ.GoType, mt.Key())
		}
		k := box(asRVal(st, a[0]), mt.Key())
		e := asRVal(st, a[1])
		if e.Kind == rkInvalid {
			if m != nil && m.Obj != nil {
				st.mapDelete(m, k)
			}
			return nil
		}
		if m == nil {
			m = &MapV{}
		}
		st.mapUpdate(m, k, box(e, mt.Elem()))
		return nil
	})
	vm("MapKeys", func(st *State, v *RVal, a []Value) Value {
		mt := mapType(st, v, "MapKeys")
		m, _ := st.rpayload(v).(*MapV)
		if m == nil || m.Obj == nil {
			return &SliceV{}
		}
		keys, _ := st.liveEntries(m)
		kt := st.E.rtypeOfGo(mt.Key())
		var out []Value
		for _, k := range keys {
			out = append(out, &RVal{Kind: kt.Kind, Typ: kt, Val: k})
		}
		if len(out) == 0 {
			return &SliceV{}
		}
		o := st.newObject(nil, "mapkeys", &ArrayV{E: out})
		return &SliceV{Obj: o, Len: len(out), Cap: len(out)}
	})
	vm("SetLen", func(st *State, v *RVal, a []Value) Value {
		st.rsettable(v, "SetLen")
		sl, ok := st.rpayload(v).(*SliceV)
		n := st.concreteInt(a[0], "slice length")
		if !ok || n < 0 || n > sl.Cap {
			st.rpanic("reflect: slice length out of range in SetLen")
		}
		st.store(v.Ref, &SliceV{Obj: sl.Obj, Off: sl.Off, Len: n, Cap: sl.Cap})
		return nil
	})
	vm("Cap", func(st *State, v *RVal, a []Value) Value {
		n := 0
		switch p := st.rpayload(v).(type) {
		case *SliceV:
			n = p.Cap
		case *ArrayV:
			n = len(p.E)
		default:
			st.rpanic("reflect: call of reflect.Value.Cap on %s Value", rkNames[v.Kind])
		}
		return st.E.intTerm(big.NewInt(int64(n)), types.Typ[types.Int])
	})
	// Slice / Slice3 on slices (and on addressable arrays held in their own object):
	// concrete indices, Go's bounds rules, the result shares the backing store.
	reslice := func(st *State, v *RVal, lo, hi, max int, three bool, what string) Value {
		switch p := st.rpayload(v).(type) {
		case *SliceV:
			if !three {
				max = p.Cap
			}
			if lo < 0 || hi < lo || max < hi || max > p.Cap {
				st.rpanic("reflect.Value.%s: slice index out of bounds", what)
			}
			return &RVal{Kind: rkSlice, Typ: v.Typ, Val: &SliceV{Obj: p.Obj, Off: p.Off + lo, Len: hi - lo, Cap: max - lo}}
		case *ArrayV:
			if v.Ref == nil || len(v.Ref.Path) != 0 {
				st.unsupported("reflect.Value.%s on an array that is not a whole addressable object", what)
			}
			if !three {
				max = len(p.E)
			}
			if lo < 0 || hi < lo || max < hi || max > len(p.E) {
				st.rpanic("reflect.Value.%s: slice index out of bounds", what)
			}
			at, ok := v.Typ.GoType.Underlying().(*types.Array)
			if !ok {
				st.unsupported("reflect.Value.%s on an array without a Go type", what)
			}
			rt := st.E.rtypeOfGo(types.NewSlice(at.Elem()))
			return &RVal{Kind: rkSlice, Typ: rt, Val: &SliceV{Obj: v.Ref.Obj, Off: lo, Len: hi - lo, Cap: max - lo}}
		}
		if t, ok := st.rpayload(v).(*Term); ok && t.Sort == SString && !three {
			if t.Const {
				if lo < 0 || hi < lo || hi > len(t.CS) {
					st.rpanic("reflect.Value.Slice: string slice index out of bounds")
				}
				return &RVal{Kind: rkString, Typ: v.Typ, Val: StrT(t.CS[lo:hi])}
			}
			st.unsupported("reflect.Value.Slice on a symbolic string")
		}
		st.unsupported("reflect.Value.%s on %s", what, rkNames[v.Kind])
		return nil
	}
	vm("Slice", func(st *State, v *RVal, a []Value) Value {
		return reslice(st, v, st.concreteInt(a[0], "slice low"), st.concreteInt(a[1], "slice high"), 0, false, "Slice")
	})
	vm("Slice3", func(st *State, v *RVal, a []Value) Value {
		return reslice(st, v, st.concreteInt(a[0], "slice low"), st.concreteInt(a[1], "slice high"), st.concreteInt(a[2], "slice max"), true, "Slice3")
	})
	vm("Index", func(st *State, v *RVal, a []Value) Value {
		i := st.concreteInt(a[0], "reflect index")
		switch p := st.rpayload(v).(type) {
		case *SliceV:
			if i < 0 || i >= p.Len {
				st.rpanic("reflect: slice index out of range")
			}
			et := v.Typ.Elem
			if et == nil {
				st.unsupported("Index on a slice without element type")
			}
			return &RVal{Kind: et.Kind, Typ: et, Ref: &PtrV{Obj: p.Obj, Path: []int{p.Off + i}}}
		case *ArrayV:
			if i < 0 || i >= len(p.E) {
				st.rpanic("reflect: array index out of range")
			}
			var et *RType
			if at, ok := v.Typ.GoType.Underlying().(*types.Array); ok {
				et = st.E.rtypeOfGo(at.Elem())
			}
			if et == nil {
				st.unsupported("Index on an array without element type")
			}
			if v.Ref != nil {
				np := append(append([]int(nil), v.Ref.Path...), i)
				return &RVal{Kind: et.Kind, Typ: et, Ref: &PtrV{Obj: v.Ref.Obj, Path: np}}
			}
			return &RVal{Kind: et.Kind, Typ: et, Val: p.E[i]}
		}
		if t, ok := st.rpayload(v).(*Term); ok && t.Sort == SString {
			// a byte of a string (ASCII model)
			n := st.strLen(t)
			if !st.Branch(And(IntLe(IntT64(0), IntT64(int64(i))), IntLt(IntT64(int64(i)), n))) {
				st.rpanic("reflect: string index out of range")
			}
			bt := st.E.rtypeOfGo(types.Typ[types.Uint8])
			return &RVal{Kind: bt.Kind, Typ: bt, Val: st.fromMathInt(StrAtCode(t, IntT64(int64(i))), types.Typ[types.Uint8])}
		}
		st.unsupported("reflect.Value.Index on %s", rkNames[v.Kind])
		return nil
	})
	vm("Addr", func(st *State, v *RVal, a []Value) Value {
		if v.Ref == nil {
			st.rpanic("reflect.Value.Addr of unaddressable value")
		}
		return &RVal{Kind: rkPtr, Typ: &RType{Kind: rkPtr, Elem: v.Typ}, Val: v.Ref}
	})
	vm("Pointer", func(st *State, v *RVal, a []Value) Value {
		if fv, ok := st.rpayload(v).(*FuncV); ok {
			if fv.IsNil() || fv.Fn == nil {
				return st.E.intTerm(big.NewInt(0), types.Typ[types.Uintptr])
			}
			// the code pointer: one per function (literal), shared by all its closures
			return st.E.intTerm(big.NewInt(int64(1000000+st.E.fnIndex(fv.Fn.String()))), types.Typ[types.Uintptr])
		}
		st.unsupported("reflect.Value.Pointer on %s", rkNames[v.Kind])
		return nil
	})
	vm("MethodByName", func(st *State, v *RVal, a []Value) Value {
		name := constStr(st, a[0], "method name")
		gt := v.Typ.GoType
		if gt == nil {
			st.unsupported("MethodByName on a value without a Go type")
		}
		sel := st.E.P.Prog.MethodSets.MethodSet(gt).Lookup(nil, name)
		if sel == nil {
			return &RVal{Kind: rkInvalid}
		}
		fn := st.E.P.Prog.MethodValue(sel)
		if fn == nil {
			st.unsupported("MethodByName: abstract method %s", name)
		}
		sig := sel.Type().(*types.Signature)
		rt := st.E.rtypeOfGo(types.NewSignatureType(nil, nil, nil, sig.Params(), sig.Results(), sig.Variadic()))
		return &RVal{Kind: rt.Kind, Typ: rt, Val: &FuncV{Fn: fn, Recv: st.rpayload(v)}}
	})
	// the sorted (exported, for concrete types) method set of a value's type, as reflect numbers it
	valueMethods := func(st *State, v *RVal) (types.Type, []*types.Selection) {
		gt := v.Typ.GoType
		if gt == nil {
			st.unsupported("Method on a value without a Go type")
		}
		ms := st.E.P.Prog.MethodSets.MethodSet(gt)
		var out []*types.Selection
		for i := 0; i < ms.Len(); i++ {
			if ms.At(i).Obj().Exported() || types.IsInterface(gt) {
				out = append(out, ms.At(i))
			}
		}
		return gt, out
	}
	vm("NumMethod", func(st *State, v *RVal, a []Value) Value {
		_, ms := valueMethods(st, v)
		return st.E.intTerm(big.NewInt(int64(len(ms))), types.Typ[types.Int])
	})
	vm("Method", func(st *State, v *RVal, a []Value) Value {
		gt, ms := valueMethods(st, v)
		i := st.concreteInt(a[0], "method index")
		if i < 0 || i >= len(ms) {
			st.rpanic("reflect: Method index out of range")
		}
		sel := ms[i]
		sig := sel.Type().(*types.Signature)
		rt := st.E.rtypeOfGo(types.NewSignatureType(nil, nil, nil, sig.Params(), sig.Results(), sig.Variadic()))
		recv := st.rpayload(v)
		if types.IsInterface(gt) {
			// the method of the dynamic value
			iv, ok := recv.(*IfaceV)
			if !ok || iv.T == nil {
				st.rpanic("reflect: Method on nil interface value")
			}
			dsel := st.E.P.Prog.MethodSets.MethodSet(iv.T).Lookup(sel.Obj().Pkg(), sel.Obj().Name())
			if dsel == nil {
				st.unsupported("Value.Method: dynamic type %s lacks %s", iv.T, sel.Obj().Name())
			}
			sel, recv = dsel, iv.V
		}
		fn := st.E.P.Prog.MethodValue(sel)
		if fn == nil {
			st.unsupported("Value.Method: abstract method %s", sel.Obj().Name())
		}
		return &RVal{Kind: rt.Kind, Typ: rt, Val: &FuncV{Fn: fn, Recv: recv}}
	})
	var callModel func(st *State, v *RVal, a []Value, spread bool) Value
	vm("Call", func(st *State, v *RVal, a []Value) Value { return callModel(st, v, a, false) })
	// CallSlice: the last argument is the variadic slice itself
	vm("CallSlice", func(st *State, v *RVal, a []Value) Value { return callModel(st, v, a, true) })
	callModel = func(st *State, v *RVal, a []Value, spread bool) Value {
		fv, ok := st.rpayload(v).(*FuncV)
		if !ok {
			st.rpanic("reflect: call of reflect.Value.Call on %s Value", rkNames[v.Kind])
		}
		var args []Value
		if in, ok := a[0].(*SliceV); ok {
			for _, e := range st.sliceElems(in) {
				// a Go function receives the payloads; a MakeFunc body receives the Values
				args = append(args, e)
			}
		}
		var r Value
		if fv.Made != nil {
			body := *fv
			body.Made = nil
			fv = &body
		}
		if isMakeFuncBody(fv) {
			o := st.newObject(nil, "callargs", &ArrayV{E: args})
			var sl Value = &SliceV{}
			if len(args) > 0 {
				sl = &SliceV{Obj: o, Len: len(args), Cap: len(args)}
			}
			return st.Call(fv, []Value{sl}, nil)
		}
		var plain []Value
		for k, x := range args {
			rv := x.(*RVal)
			pv := st.rpayload(rv)
			// a concrete value passed for an interface parameter is boxed, as reflect's Call does
			if ps := fv.Fn.Signature.Params(); k < ps.Len() && !(fv.Fn.Signature.Variadic() && k == ps.Len()-1) && types.IsInterface(ps.At(k).Type()) {
				if _, isI := pv.(*IfaceV); !isI && rv.Kind != rkInterface {
					gt := rv.Typ.GoType
					if gt == nil {
						gt = kindGoType(rv.Kind)
					}
					if it, ok := ps.At(k).Type().Underlying().(*types.Interface); ok && gt != nil && !types.Implements(gt, it) {
						st.rpanic("reflect: Call using %s as type %s", gt, ps.At(k).Type())
					}
					pv = &IfaceV{T: gt, V: pv}
				}
			}
			plain = append(plain, pv)
		}
		if sig := fv.Fn.Signature; sig.Variadic() && !spread {
			// pack the trailing arguments into the variadic slice
			nfix := sig.Params().Len() - 1
			if len(args) < nfix {
				st.rpanic("reflect: Call with too few input arguments")
			}
			et := sig.Params().At(nfix).Type().(*types.Slice).Elem()
			var rest []Value
			for _, x := range args[nfix:] {
				rv := x.(*RVal)
				pv := st.rpayload(rv)
				if types.IsInterface(et) {
					if _, isI := pv.(*IfaceV); !isI {
						gt := rv.Typ.GoType
						if gt == nil {
							gt = kindGoType(rv.Kind)
						}
						pv = &IfaceV{T: gt, V: pv}
					}
				}
				rest = append(rest, pv)
			}
			// reflect.Call makes the variadic slice itself (MakeSlice): empty but not nil when
			// there is no trailing argument
			o := st.newObject(nil, "variadic", &ArrayV{E: rest})
			var sl Value = &SliceV{Obj: o, Len: len(rest), Cap: len(rest)}
			plain = append(plain[:nfix:nfix], sl)
		}
		r = st.Call(fv, plain, nil)
		var outs []Value
		wrap := func(o Value, t types.Type) Value {
			rt := st.E.rtypeOfGo(t)
			return &RVal{Kind: rt.Kind, Typ: rt, Val: o}
		}
		res := fv.Fn.Signature.Results()
		switch x := r.(type) {
		case nil:
		case TupleV:
			for i, o := range x {
				outs = append(outs, wrap(o, res.At(i).Type()))
			}
		default:
			outs = append(outs, wrap(x, res.At(0).Type()))
		}
		if len(outs) == 0 {
			return &SliceV{}
		}
		o := st.newObject(nil, "callresults", &ArrayV{E: outs})
		return &SliceV{Obj: o, Len: len(outs), Cap: len(outs)}
	}
}

// isMakeFuncBody: a function of type func([]reflect.Value) []reflect.Value.
func isMakeFuncBody(fv *FuncV) bool {
	if fv.Fn == nil {
		return false
	}
	sig := fv.Fn.Signature
	if sig.Params().Len() != 1 || sig.Results().Len() != 1 {
		return false
	}
	isRVSlice := func(t types.Type) bool {
		s, ok := t.Underlying().(*types.Slice)
		if !ok {
			return false
		}
		n, ok := s.Elem().(*types.Named)
		return ok && n.Obj().Pkg() != nil && n.Obj().Pkg().Path() == "reflect" && n.Obj().Name() == "Value"
	}
	return isRVSlice(sig.Params().At(0).Type()) && isRVSlice(sig.Results().At(0).Type())
}

func isConstantValueIface(t types.Type) bool {
	n, ok := t.(*types.Named)
	return ok && n.Obj().Pkg() != nil && n.Obj().Pkg().Path() == "go/constant" && n.Obj().Name() == "Value"
}
