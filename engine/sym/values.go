package sym

import (
	"fmt"
	"go/types"
	"strings"

	"golang.org/x/tools/go/ssa"
)

// Value is a symbolic run-time value. Scalars are *Term; aggregates are
// persistent trees (never mutated in place), heap cells are *Object whose
// contents live in the path state's memory map.
type Value interface{}

type StructV struct{ F []Value }
type ArrayV struct{ E []Value }
type TupleV []Value

// Object is a heap cell identity. Its content is looked up in State.mem
// (falling back to Engine.baseMem).
type Object struct {
	ID   int
	Typ  types.Type
	Name string
}

func (o *Object) String() string { return fmt.Sprintf("obj%d<%s>", o.ID, o.Name) }

// PtrV is a pointer to a (sub-)location of an object. Obj == nil is the nil pointer.
type PtrV struct {
	Obj  *Object
	Path []int
	Fn   *FuncV // pointer-shaped function identity (unused)
}

// SliceV is a slice of a backing object holding an *ArrayV. Obj == nil is nil.
type SliceV struct {
	Obj           *Object
	Off, Len, Cap int
}

type MapEntry struct {
	K, V    Value
	Deleted bool
}

// MapData is the content of a map object: an ordered write log.
// Base, when non-nil, is a symbolic map given as SMT arrays (present, value).
type MapData struct {
	Entries  []MapEntry
	BasePres string // SMT array term String->Bool ("" if none)
	BaseVal  string // SMT array term String->String
}

type MapV struct{ Obj *Object }

type ChanV struct{ Obj *Object }

// IfaceV is an interface value; T == nil is the nil interface.
type IfaceV struct {
	T types.Type
	V Value
}

// FuncV is a function value. Fn == nil && Native == "" is the nil func.
type FuncV struct {
	Fn     *ssa.Function
	Env    []Value
	Native string           // hook name for functions with no SSA body
	Recv   Value            // bound receiver (method values of hooked types)
	ID     int              // closure identity (allocation order), 0 for plain functions
	Sig    *types.Signature // for opaque methods
	Made   *types.Signature // reflect.MakeFunc result: the Go-visible signature; Fn is the body over []reflect.Value
}

func (f *FuncV) IsNil() bool { return f == nil || (f.Fn == nil && f.Native == "") }

// OpaqueV is an uninterpreted value with identity.
type OpaqueV struct {
	Name string
	ID   int
	T    types.Type
}

// RangeIter is the state of a range over a map or string.
type RangeIter struct {
	Keys []Value
	Vals []Value
	Pos  int
	Str  *Term // string being ranged (nil for maps)
}

func showValue(v Value) string {
	switch x := v.(type) {
	case nil:
		return "<nil>"
	case *Term:
		return x.S
	case *StructV:
		var p []string
		for _, f := range x.F {
			p = append(p, showValue(f))
		}
		return "{" + strings.Join(p, ", ") + "}"
	case *ArrayV:
		var p []string
		for _, f := range x.E {
			p = append(p, showValue(f))
		}
		return "[" + strings.Join(p, ", ") + "]"
	case TupleV:
		var p []string
		for _, f := range x {
			p = append(p, showValue(f))
		}
		return "(" + strings.Join(p, ", ") + ")"
	case *PtrV:
		if x.Obj == nil {
			return "nilptr"
		}
		return fmt.Sprintf("&%s%v", x.Obj, x.Path)
	case *SliceV:
		if x.Obj == nil {
			return "nilslice"
		}
		return fmt.Sprintf("%s[%d:%d:%d]", x.Obj, x.Off, x.Off+x.Len, x.Off+x.Cap)
	case *MapV:
		if x.Obj == nil {
			return "nilmap"
		}
		return "map@" + x.Obj.String()
	case *IfaceV:
		if x.T == nil {
			return "niliface"
		}
		return fmt.Sprintf("iface(%s, %s)", x.T, showValue(x.V))
	case *FuncV:
		if x.IsNil() {
			return "nilfunc"
		}
		if x.Fn != nil {
			return fmt.Sprintf("func %s#%d", x.Fn.String(), x.ID)
		}
		return "native " + x.Native
	case *OpaqueV:
		return fmt.Sprintf("opaque(%s#%d)", x.Name, x.ID)
	}
	return fmt.Sprintf("%T", v)
}

// getPath navigates into an aggregate value.
func getPath(v Value, path []int) Value {
	for _, i := range path {
		switch x := v.(type) {
		case *StructV:
			v = x.F[i]
		case *ArrayV:
			v = x.E[i]
		default:
			panic(fmt.Sprintf("getPath: cannot index %T", v))
		}
	}
	return v
}

// setPath returns a copy of v with the element at path replaced.
func setPath(v Value, path []int, nv Value) Value {
	if len(path) == 0 {
		return nv
	}
	i := path[0]
	switch x := v.(type) {
	case *StructV:
		f := make([]Value, len(x.F))
		copy(f, x.F)
		f[i] = setPath(x.F[i], path[1:], nv)
		return &StructV{F: f}
	case *ArrayV:
		e := make([]Value, len(x.E))
		copy(e, x.E)
		e[i] = setPath(x.E[i], path[1:], nv)
		return &ArrayV{E: e}
	}
	panic(fmt.Sprintf("setPath: cannot index %T", v))
}
