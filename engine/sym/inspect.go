package sym

import (
	"go/types"
	"math/big"
	"strings"

	"golang.org/x/tools/go/ssa"
)

// Read-only access to the state left by RunInit, for drivers that compare
// tables built by initialisers with what they are meant to denote.

// BaseGlobal returns the value of a package-level variable after RunInit.
func (e *Engine) BaseGlobal(pkgPath, name string) Value {
	pk := e.P.Package(pkgPath)
	if pk == nil {
		return nil
	}
	g, ok := pk.Members[name].(*ssa.Global)
	if !ok {
		return nil
	}
	return e.baseMem[e.globalObj(g)]
}

// BaseMapEntries returns the live entries of a map of the base memory, in
// insertion order (later writes to the same constant key replace earlier ones).
func (e *Engine) BaseMapEntries(v Value) []MapEntry {
	m, ok := v.(*MapV)
	if !ok || m.Obj == nil {
		return nil
	}
	md, ok := e.baseMem[m.Obj].(*MapData)
	if !ok {
		return nil
	}
	var out []MapEntry
	idx := map[string]int{}
	for _, en := range md.Entries {
		key := ""
		if t, ok := en.K.(*Term); ok && t.Const {
			key = t.S
		}
		if i, seen := idx[key]; seen && key != "" {
			out[i] = en
			continue
		}
		if key != "" {
			idx[key] = len(out)
		}
		out = append(out, en)
	}
	var live []MapEntry
	for _, en := range out {
		if !en.Deleted {
			live = append(live, en)
		}
	}
	return live
}

// Denot is what a modelled reflect.Value denotes.
type Denot struct {
	Kind   string        // "func", "var", "typednil", "const", "other", "invalid"
	Fn     *ssa.Function // func
	Global string        // var: "pkgpath.Name" of the package-level variable it addresses
	GoType types.Type    // static Go type of the value
	Int    *big.Int      // const of an integer kind, or an exact go/constant Int
	Str    *string       // const string
	Bool   *bool         // const bool
	Lit    string        // go/constant value made from a literal: "TOKEN:text"
	Note   string
}

// DenotationOf describes v (an *RVal of the base memory).
func (e *Engine) DenotationOf(v Value) Denot {
	rv, ok := v.(*RVal)
	if !ok || rv.Kind == rkInvalid {
		return Denot{Kind: "invalid"}
	}
	d := Denot{Kind: "other"}
	if rv.Typ != nil {
		d.GoType = rv.Typ.GoType
	}
	if rv.Ref != nil {
		if rv.Ref.Obj != nil && len(rv.Ref.Path) == 0 {
			d.Kind, d.Global = "var", rv.Ref.Obj.Name
		} else {
			d.Note = "addressable sub-location"
		}
		return d
	}
	switch p := rv.Val.(type) {
	case *FuncV:
		if p.Fn != nil && len(p.Env) == 0 && p.Recv == nil {
			d.Kind, d.Fn = "func", p.Fn
		}
	case *PtrV:
		if p.Obj == nil {
			d.Kind = "typednil"
		}
	case *Term:
		if p.Const {
			d.Kind = "const"
			switch p.Sort {
			case SInt:
				d.Int = p.CI
			case SString:
				s := p.CS
				d.Str = &s
			case SBool:
				b := p.CB
				d.Bool = &b
			default:
				if p.CI != nil {
					d.Int = p.CI
				} else {
					d.Note = "constant of sort " + p.S
				}
			}
		}
	case *OpaqueV:
		if strings.HasPrefix(p.Name, "lit:") {
			d.Kind, d.Lit = "const", strings.TrimPrefix(p.Name, "lit:")
		}
	case *IfaceV:
		// a go/constant value held in the table
		if p.T == constIntT {
			if t, ok := p.V.(*Term); ok && t.Const {
				d.Kind, d.Int = "const", t.CI
			}
		} else if o, ok := p.V.(*OpaqueV); ok && strings.HasPrefix(o.Name, "lit:") {
			d.Kind, d.Lit = "const", strings.TrimPrefix(o.Name, "lit:")
		} else if p.T == constStrT {
			if t, ok := p.V.(*Term); ok && t.Const {
				s := t.CS
				d.Kind, d.Str = "const", &s
			}
		}
	}
	return d
}
