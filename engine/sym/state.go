package sym

import (
	"fmt"
	"go/types"
	"math/big"
	"sort"
	"strings"
)

// pathEnd is the Go-level panic used to abandon the current path.
type pathEnd struct {
	Reason string // "infeasible", "bound", "unsupported", "inconclusive", "done"
	Detail string
}

// goPanic carries a Go-level panic of the executed program through the engine.
type goPanic struct{ Info *PanicInfo }

// PanicInfo describes a panic in flight in the executed code.
type PanicInfo struct {
	Val     Value  // the panic value as an interface value (*IfaceV)
	Kind    string // "explicit", "index", "nil", "divide", "typeassert", "slice", "shift", "nilmap", "reflect", ...
	Detail  string
	Runtime bool
}

// NondetRec records one symbolic input created by a harness.
type NondetRec struct {
	Label string
	Name  string // SMT constant name
	Sort  Sort
	W     int
	Kind  string // "int64","uint64","bool","string","big",...
}

// Event is an entry of the per-path trace.
type Event struct {
	Tag    string
	Args   []Value
	Result Value
}

// Violation is an assertion that the solver showed can fail.
type Violation struct {
	ID       string            // obligation id
	Finding  string            // name of the known-finding region it falls in ("" = outside all regions)
	Model    map[string]string // label -> value (solver syntax parsed to text)
	Path     []bool
	Detail   string
	PanicMsg string
}

// AssertRec tallies one obligation id.
type AssertRec struct {
	ID      string
	Checked int // number of path-level queries
	Proved  int // unsat answers
	Failed  int
	Unknown int
	Reached bool
}

type State struct {
	E                            *Engine
	pendingGo                    []pendingGo // goroutines started by go statements, not yet run (see vRunGoroutines)
	mem                          map[*Object]Value
	prefix                       []bool
	pos                          int
	decided                      []bool
	forcedAt                     []bool
	pc                           []*Term
	fresh                        int
	nondets                      []NondetRec
	events                       []Event
	declared                     []string
	known                        []knownRegion // pending known-finding regions for the next assert
	nDec                         int
	depth                        int
	instrs                       int
	steps                        int
	curFrame                     *frame
	closureID                    int
	scratch                      map[string]Value // harness scratch registry (vSet/vGet)
	decomp, sufDecomp, preDecomp map[string]*decompRec
	noSep                        map[string]bool
	subCache                     map[string]*Term
	condCache                    map[string]bool
	charset                      map[string]string
	preds                        []predUse
	watch                        map[*Object]bool // objects reachable from a watched closure's captured variables
	transcript                   []string         // declarations and assertions of this path, for fallback solvers
	predDecl                     map[string]bool
	maxlen                       map[string]int
	minlen                       map[string]int
}

type predUse struct {
	Name string
	Arg  *Term
}

type knownRegion struct {
	Name string
	Cond *Term
}

func (st *State) abort(reason, detail string) {
	panic(&pathEnd{Reason: reason, Detail: detail})
}

func (st *State) unsupported(format string, args ...interface{}) {
	// name the place in the executed code (innermost first): it is what has to be modelled next
	where := ""
	n := 0
	for fr := st.curFrame; fr != nil && n < 4; fr = fr.caller {
		if fr.fn != nil {
			where += " < " + fr.fn.String()
			n++
		}
	}
	st.abort("unsupported", fmt.Sprintf(format, args...)+where)
}

// whereAmI names the innermost executing functions (for traces).
func (st *State) whereAmI() string {
	where := ""
	n := 0
	for fr := st.curFrame; fr != nil && n < 3; fr = fr.caller {
		if fr.fn != nil {
			where += " < " + fr.fn.String()
			n++
		}
	}
	return where
}

// ---- memory ----

func (st *State) newObject(t types.Type, name string, init Value) *Object {
	st.E.objCtr++
	o := &Object{ID: st.E.objCtr, Typ: t, Name: name}
	st.mem[o] = init
	return o
}

func (st *State) get(o *Object) Value {
	if v, ok := st.mem[o]; ok {
		return v
	}
	if v, ok := st.E.baseMem[o]; ok {
		return v
	}
	panic("engine: object without content: " + o.String())
}

func (st *State) set(o *Object, v Value) {
	if st.watch != nil && st.watch[o] {
		st.events = append(st.events, Event{Tag: "capwrite:" + o.Name})
	}
	st.mem[o] = v
}

func (st *State) load(p *PtrV) Value {
	if p.Obj == nil {
		st.throwRuntime("nil", "nil pointer dereference")
	}
	return getPath(st.get(p.Obj), p.Path)
}

func (st *State) store(p *PtrV, v Value) {
	if p.Obj == nil {
		st.throwRuntime("nil", "nil pointer dereference")
	}
	st.set(p.Obj, setPath(st.get(p.Obj), p.Path, v))
}

// ---- solver interplay ----

func (st *State) declare(name string, sort Sort, w int) {
	cmd := fmt.Sprintf("(declare-const %s %s)", name, sortName(sort, w))
	st.E.Solver.Cmd(cmd)
	st.transcript = append(st.transcript, cmd)
	st.declared = append(st.declared, name)
}

func (st *State) freshName(hint string) string {
	st.fresh++
	hint = strings.Map(func(r rune) rune {
		if r >= 'a' && r <= 'z' || r >= 'A' && r <= 'Z' || r >= '0' && r <= '9' || r == '_' {
			return r
		}
		return '_'
	}, hint)
	return fmt.Sprintf("v%d_%s", st.fresh, hint)
}

// FreshTerm declares a new symbolic constant.
func (st *State) FreshTerm(hint string, sort Sort, w int) *Term {
	n := st.freshName(hint)
	st.declare(n, sort, w)
	return &Term{S: n, Sort: sort, W: w}
}

func (st *State) assertTerm(c *Term) {
	if c.Const {
		if !c.CB {
			st.abort("infeasible", "assumed false")
		}
		return
	}
	st.pc = append(st.pc, c)
	st.E.Solver.Cmd("(assert " + c.S + ")")
	st.transcript = append(st.transcript, "(assert "+c.S+")")
}

// feasible asks whether pc ∧ c is satisfiable. Unknown counts as feasible
// (keeps the path) but is tallied.
func (st *State) feasible(c *Term) bool {
	if c.Const {
		return c.CB
	}
	s := st.E.Solver
	s.Push()
	s.Cmd("(assert " + c.S + ")")
	r := s.Check()
	s.Pop()
	st.E.Stats.Queries++
	switch r {
	case "unsat":
		return false
	case "sat":
		return true
	}
	st.E.Stats.UnknownBranch++
	return true
}

// Branch decides a symbolic condition for this path, forking when both
// outcomes are feasible.
func (st *State) Branch(c *Term) bool {
	if c.Const {
		return c.CB
	}
	if d, ok := st.condCache[c.S]; ok {
		return d
	}
	defer func() {
		if r := recover(); r != nil {
			panic(r)
		}
	}()
	res := st.branch1(c)
	st.condCache[c.S] = res
	st.condCache[Not(c).S] = !res
	return res
}

func (st *State) branch1(c *Term) bool {
	st.nDec++
	if st.pos < len(st.prefix) {
		d := st.prefix[st.pos]
		st.pos++
		st.decided = append(st.decided, d)
		if d {
			st.assertTerm(c)
		} else {
			st.assertTerm(Not(c))
		}
		return d
	}
	if len(st.decided) >= st.E.MaxDecisions {
		st.abort("bound", fmt.Sprintf("more than %d symbolic decisions on one path", st.E.MaxDecisions))
	}
	ft := st.feasible(c)
	ff := st.feasible(Not(c))
	switch {
	case ft && ff:
		if st.E.Trace {
			cs := c.S
			if len(cs) > 160 {
				cs = cs[:160]
			}
			fmt.Printf("    fork %d: %s @ %s\n", len(st.decided), cs, st.whereAmI())
		}
		alt := make([]bool, len(st.decided)+1)
		copy(alt, st.decided)
		alt[len(st.decided)] = false
		st.E.work = append(st.E.work, alt)
		st.E.Stats.Forks++
		st.decided = append(st.decided, true)
		st.pos++
		st.assertTerm(c)
		return true
	case ft:
		st.decided = append(st.decided, true)
		st.pos++
		st.assertTerm(c)
		return true
	case ff:
		st.decided = append(st.decided, false)
		st.pos++
		st.assertTerm(Not(c))
		return false
	}
	st.abort("infeasible", "both branches infeasible")
	return false
}

// Assume restricts the path.
func (st *State) Assume(c *Term) {
	if c.Const {
		if !c.CB {
			st.abort("infeasible", "assume(false)")
		}
		return
	}
	st.assertTerm(c)
	// lazily checked: an infeasible path is detected at the next branch or
	// assertion; to keep vacuity visible we check here when cheap.
	if st.E.EagerAssume {
		if !st.feasible(TrueT) {
			st.abort("infeasible", "assumption unsatisfiable")
		}
	}
}

func (st *State) pathFeasible() bool {
	s := st.E.Solver
	r := s.Check()
	st.E.Stats.Queries++
	return r != "unsat"
}

func (st *State) model() map[string]string {
	var names []string
	for _, n := range st.nondets {
		names = append(names, n.Name)
	}
	vals, err := st.E.Solver.GetValues(names)
	res := map[string]string{}
	if err != nil {
		res["@error"] = err.Error()
		return res
	}
	cnt := map[string]int{}
	for _, n := range st.nondets {
		k := n.Label
		if c := cnt[n.Label]; c > 0 {
			k = fmt.Sprintf("%s#%d", n.Label, c)
		}
		cnt[n.Label]++
		pv := ParseSMTValue(vals[n.Name])
		if n.Sort == SFP {
			eb, sb := fpEbSb(n.W)
			if b, ok := ParseFPValue(vals[n.Name], eb, sb); ok {
				pv = b
			}
		}
		if bi, ok := pv.(*big.Int); ok && n.Sort == SBV && strings.HasPrefix(n.Kind, "int") && bi.Bit(n.W-1) == 1 {
			pv = new(big.Int).Sub(bi, new(big.Int).Lsh(big.NewInt(1), uint(n.W)))
		}
		res[k] = fmt.Sprint(pv)
	}
	// interpretation of the uninterpreted predicates at the points used
	for _, p := range st.preds {
		av, err1 := st.E.Solver.GetValues([]string{p.Arg.S})
		pv, err2 := st.E.Solver.GetValues([]string{fmt.Sprintf("(%s %s)", p.Name, p.Arg.S)})
		if err1 != nil || err2 != nil {
			continue
		}
		var a, v string
		for _, x := range av {
			a = fmt.Sprint(ParseSMTValue(x))
		}
		for _, x := range pv {
			v = fmt.Sprint(ParseSMTValue(x))
		}
		res["pred:"+p.Name+":"+a] = v
	}
	return res
}

// Assert checks an obligation on this path. Known-finding regions registered
// with vKnown since the previous assertion partition the failures.
func (st *State) Assert(id string, c *Term) {
	rec := st.E.assertRec(id)
	rec.Reached = true
	regions := st.known
	st.known = nil
	if c.Const && c.CB {
		rec.Checked++
		rec.Proved++
		return
	}
	s := st.E.Solver
	// 1. violation outside every open region
	var outs []*Term
	var open []knownRegion
	for _, r := range regions {
		if st.E.OpenFindings[r.Name] {
			open = append(open, r)
			outs = append(outs, Not(r.Cond))
		}
	}
	neg := Not(c)
	q := And(append([]*Term{neg}, outs...)...)
	rec.Checked++
	res := "unsat"
	if !(q.Const && !q.CB) {
		s.Push()
		if !q.Const {
			s.Cmd("(assert " + q.S + ")")
		}
		res = s.Check()
		st.E.Stats.Queries++
		if res == "sat" {
			v := &Violation{ID: id, Model: st.model(), Path: append([]bool(nil), st.decided...)}
			st.E.addViolation(v)
		}
		s.Pop()
	}
	if res != "sat" && res != "unsat" {
		// primary solver gave up: ask the fallback solvers with the whole path condition
		if r2 := st.fallbackCheck(q); r2 == "unsat" {
			res = "unsat"
			st.E.Stats.FallbackProved++
		} else if r2 == "sat" {
			st.E.noteInconclusive(id, "primary solver unknown, fallback solver found a counterexample that was not extracted")
		}
	}
	switch res {
	case "unsat":
		rec.Proved++
	case "sat":
		rec.Failed++
	default:
		rec.Unknown++
		st.E.noteInconclusive(id, "solver answered "+res)
	}
	// 2. violations inside each open region (known findings)
	for _, r := range open {
		if st.E.seenFinding[r.Name] && !st.E.AllFindingModels {
			continue
		}
		q := And(neg, r.Cond)
		if q.Const && !q.CB {
			continue
		}
		s.Push()
		if !q.Const {
			s.Cmd("(assert " + q.S + ")")
		}
		r2 := s.Check()
		st.E.Stats.Queries++
		if r2 == "sat" {
			v := &Violation{ID: id, Finding: r.Name, Model: st.model(), Path: append([]bool(nil), st.decided...)}
			st.E.addViolation(v)
			st.E.seenFinding[r.Name] = true
		}
		s.Pop()
	}
	// continue the path under the assumption that the assertion held
	if !c.Const {
		st.assertTerm(c)
		if res == "sat" && !st.pathFeasible() {
			st.abort("infeasible", "assertion always fails on this path")
		}
	} else if !c.CB {
		st.abort("done", "assertion failed concretely")
	}
}

func sortedKeys(m map[string]string) []string {
	var ks []string
	for k := range m {
		ks = append(ks, k)
	}
	sort.Strings(ks)
	return ks
}

// fallbackCheck re-discharges pc ∧ q with the other installed solvers.
func (st *State) fallbackCheck(q *Term) string {
	for _, name := range st.E.Fallbacks {
		s := st.E.fallbackSolver(name)
		if s == nil {
			continue
		}
		s.Reset()
		for _, c := range st.transcript {
			s.Cmd(c)
		}
		if !q.Const {
			s.Cmd("(assert " + q.S + ")")
		}
		r := s.Check()
		if r == "sat" || r == "unsat" {
			return r
		}
	}
	return "unknown"
}

// pendingGo is a goroutine created by a go statement: the function value and
// the arguments as evaluated at the statement. The single-threaded model runs
// it when the harness says so (vRunGoroutines), i.e. at a later point of the
// creating goroutine - one of the schedules Go allows.
type pendingGo struct {
	fn   Value
	args []Value
}
