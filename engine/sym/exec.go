package sym

import (
	"fmt"
	"go/constant"
	"go/token"
	"go/types"
	"math/big"
	"strings"
	"time"

	"golang.org/x/tools/go/ssa"
)

type deferred struct {
	fn     Value // *FuncV or builtin marker
	args   []Value
	call   *ssa.CallCommon
	invoke bool
}

type frame struct {
	fn        *ssa.Function
	env       map[ssa.Value]Value
	block     *ssa.BasicBlock
	prev      *ssa.BasicBlock
	defers    []deferred
	panicking *PanicInfo
	recovered bool
	caller    *frame
	deferOf   *frame
	loopSym   map[*ssa.BasicBlock]int
	loopDec   map[*ssa.BasicBlock]int
	loopIter  map[*ssa.BasicBlock]int
	result    Value
	returned  bool
}

// throw raises a Go-level panic in the executed program.
func (st *State) throw(info *PanicInfo) {
	panic(&goPanic{Info: info})
}

func (st *State) throwRuntime(kind, detail string) {
	if st.E.Trace {
		fmt.Printf("    runtime panic %s: %s @%s\n", kind, detail, st.whereAmI())
	}
	st.throw(&PanicInfo{Kind: kind, Detail: detail, Runtime: true, Val: st.E.runtimeErrorValue(kind, detail)})
}

// ---- calling ----

// Call invokes a function value with arguments; a Go-level panic of the callee
// propagates as a *goPanic.
func (st *State) Call(fv *FuncV, args []Value, deferOf *frame) Value {
	if fv.IsNil() {
		st.throwRuntime("nil", "call of nil function")
	}
	if fv.Native != "" {
		if strings.HasPrefix(fv.Native, "@opaque:") {
			return st.E.opaqueResults(st, fv.Native[8:], fv.Sig, args)
		}
		if strings.HasPrefix(fv.Native, "@stub:") {
			r := st.E.opaqueResults(st, fv.Native, fv.Sig, args)
			st.events[len(st.events)-1].Result = r
			return r
		}
		h := st.E.Hooks[fv.Native]
		if h == nil {
			st.unsupported("no hook for native function %s", fv.Native)
		}
		if fv.Recv != nil {
			args = append([]Value{fv.Recv}, args...)
		}
		return h(st, args)
	}
	if fv.Made != nil {
		// a function made by reflect.MakeFunc called as an ordinary Go function: the body
		// receives the arguments as reflect.Values and returns the results the same way
		body := *fv
		body.Made = nil
		var in []Value
		for k, x := range args {
			rt := st.E.rtypeOfGo(fv.Made.Params().At(k).Type())
			in = append(in, &RVal{Kind: rt.Kind, Typ: rt, Val: x})
		}
		var sl Value = &SliceV{}
		if len(in) > 0 {
			o := st.newObject(nil, "callargs", &ArrayV{E: in})
			sl = &SliceV{Obj: o, Len: len(in), Cap: len(in)}
		}
		r := st.Call(&body, []Value{sl}, deferOf)
		var outs []Value
		if rs, ok := r.(*SliceV); ok {
			for k, e := range st.sliceElems(rs) {
				pv := st.rpayload(e.(*RVal))
				if rt := fv.Made.Results().At(k).Type(); types.IsInterface(rt) {
					if _, isI := pv.(*IfaceV); !isI {
						gt := e.(*RVal).Typ.GoType
						if gt == nil {
							gt = kindGoType(e.(*RVal).Kind)
						}
						pv = &IfaceV{T: gt, V: pv}
					}
				}
				outs = append(outs, pv)
			}
		}
		switch len(outs) {
		case 0:
			return nil
		case 1:
			return outs[0]
		}
		return TupleV(outs)
	}
	if fv.Recv != nil {
		// a method value obtained through reflection: the receiver is bound
		args = append([]Value{fv.Recv}, args...)
	}
	return st.callFn(fv.Fn, args, fv.Env, deferOf)
}

func (st *State) callFn(fn *ssa.Function, args []Value, env []Value, deferOf *frame) Value {
	name := fn.String()
	if fn.Synthetic != "" && fn.Blocks == nil && fn.Name() == "init" {
		return nil
	}
	if st.E.skipInitFn(fn) {
		return nil
	}
	if fn.Pkg != nil && st.E.isTargetPkg(fn.Pkg) {
		if h, ok := st.E.Intrinsics[fn.Name()]; ok {
			return h(st, args)
		}
		// a function of the intrinsics file without an engine meaning must never run its native body
		if pos := fn.Pos(); pos.IsValid() {
			if f := st.E.P.Fset.Position(pos).Filename; strings.HasSuffix(f, "zz_verif_intrinsics.go") {
				st.unsupported("harness intrinsic %s has no engine implementation", fn.Name())
			}
		}
	}
	// a property's explicit redirect overrides a generic library summary
	if h, ok := st.E.Hooks[name]; ok && st.E.Redirect[name] == nil {
		st.E.noteUsed("hook", name)
		return h(st, args)
	}
	if r, ok := st.E.Redirect[name]; ok {
		st.E.noteUsed("summary", name+" => "+r.Name())
		fn = r
	} else if fn.Origin() != nil {
		if h, ok := st.E.Hooks[fn.Origin().String()]; ok {
			return h(st, args)
		}
	}
	if fn.Blocks == nil {
		if fn.Name() == "init" {
			return nil
		}
		return st.E.opaqueCall(st, fn, args)
	}
	if st.E.isForeign(fn) && !st.E.AllowInline[name] && !st.E.inlineOK(fn) {
		return st.E.opaqueCall(st, fn, args)
	}
	st.E.noteEncoded(fn)
	if st.depth > st.E.MaxDepth {
		st.abort("bound", "call depth exceeded at "+name)
	}
	fr := &frame{fn: fn, env: map[ssa.Value]Value{}, caller: st.curFrame, deferOf: deferOf}
	for i, p := range fn.Params {
		if i < len(args) {
			fr.env[p] = args[i]
		}
	}
	for i, fv := range fn.FreeVars {
		fr.env[fv] = env[i]
	}
	st.depth++
	saved := st.curFrame
	st.curFrame = fr
	defer func() {
		st.depth--
		st.curFrame = saved
	}()
	return st.runFrame(fr)
}

// runFrame executes the body, then handles panics and deferred calls with
// Go's semantics.
func (st *State) runFrame(fr *frame) (ret Value) {
	pinfo := st.protect(func() { st.execBody(fr) })
	if pinfo == nil {
		return fr.result
	}
	// panicking: run deferred calls
	fr.panicking = pinfo
	st.runDefers(fr)
	if fr.panicking != nil {
		st.curFrame = fr.caller
		panic(&goPanic{Info: fr.panicking})
	}
	// recovered
	if fr.fn.Recover != nil {
		fr.block = fr.fn.Recover
		fr.prev = nil
		p2 := st.protect(func() { st.execBlocks(fr) })
		if p2 != nil {
			panic(&goPanic{Info: p2})
		}
		return fr.result
	}
	return st.E.zeroResults(fr.fn.Signature.Results())
}

// protect runs f and returns the Go-level panic of the executed code, if any.
func (st *State) protect(f func()) (info *PanicInfo) {
	defer func() {
		if r := recover(); r != nil {
			if gp, ok := r.(*goPanic); ok {
				info = gp.Info
				return
			}
			panic(r)
		}
	}()
	f()
	return nil
}

// runDefers runs the pending deferred calls of fr, last in first out.
func (st *State) runDefers(fr *frame) {
	for len(fr.defers) > 0 {
		d := fr.defers[len(fr.defers)-1]
		fr.defers = fr.defers[:len(fr.defers)-1]
		saved := st.curFrame
		p := st.protect(func() { st.invokeDeferred(fr, d) })
		st.curFrame = saved
		if p != nil {
			// a panic in a deferred call replaces the current one
			fr.panicking = p
			fr.recovered = false
		}
		if fr.recovered {
			fr.panicking = nil
			fr.recovered = false
		}
	}
}

func (st *State) invokeDeferred(fr *frame, d deferred) {
	switch f := d.fn.(type) {
	case *FuncV:
		st.Call(f, d.args, fr)
	case *ssa.Builtin:
		st.builtin(fr, f, d.args, nil)
	default:
		st.unsupported("deferred callee %T", d.fn)
	}
}

func (st *State) execBody(fr *frame) {
	fr.block = fr.fn.Blocks[0]
	st.execBlocks(fr)
}

func (st *State) execBlocks(fr *frame) {
	for !fr.returned {
		b := fr.block
		var next *ssa.BasicBlock
		for _, ins := range b.Instrs {
			st.E.Stats.Instrs++
			st.steps++
			if st.steps > st.E.MaxSteps {
				st.abort("bound", fmt.Sprintf("more than %d instructions on one path", st.E.MaxSteps))
			}
			if st.steps&0xffff == 0 && !st.E.Deadline.IsZero() && time.Now().After(st.E.Deadline) {
				st.abort("bound", "time budget exhausted inside a path")
			}
			next = st.step(fr, ins)
			if fr.returned {
				return
			}
		}
		if next == nil {
			st.unsupported("block %s.%d fell through", fr.fn, b.Index)
		}
		// loop bound bookkeeping on back edges
		if next.Dominates(b) {
			if fr.loopSym == nil {
				fr.loopSym = map[*ssa.BasicBlock]int{}
				fr.loopDec = map[*ssa.BasicBlock]int{}
				fr.loopIter = map[*ssa.BasicBlock]int{}
			}
			fr.loopIter[next]++
			if fr.loopIter[next] > st.E.MaxConcreteIter {
				st.abort("bound", fmt.Sprintf("loop in %s iterated more than %d times", fr.fn, st.E.MaxConcreteIter))
			}
			if fr.loopDec[next] != st.nDec {
				fr.loopDec[next] = st.nDec
				fr.loopSym[next]++
				if fr.loopSym[next] > st.E.MaxUnroll {
					st.abort("bound", fmt.Sprintf("unwinding bound %d exceeded in %s", st.E.MaxUnroll, fr.fn))
				}
			}
		}
		fr.prev = b
		fr.block = next
	}
}

func (st *State) val(fr *frame, v ssa.Value) Value {
	switch x := v.(type) {
	case *ssa.Const:
		return st.E.constValue(x)
	case *ssa.Global:
		return &PtrV{Obj: st.E.globalObj(x)}
	case *ssa.Function:
		return &FuncV{Fn: x}
	case *ssa.Builtin:
		return x
	}
	if r, ok := fr.env[v]; ok {
		return r
	}
	panic(fmt.Sprintf("engine: no value for %s (%T) in %s", v.Name(), v, fr.fn))
}

func (st *State) vals(fr *frame, vs []ssa.Value) []Value {
	r := make([]Value, len(vs))
	for i, v := range vs {
		r[i] = st.val(fr, v)
	}
	return r
}

// step executes one instruction; for control instructions it returns the successor block.
func (st *State) step(fr *frame, ins ssa.Instruction) *ssa.BasicBlock {
	switch x := ins.(type) {
	case *ssa.DebugRef:
	case *ssa.Alloc:
		et := x.Type().Underlying().(*types.Pointer).Elem()
		o := st.newObject(et, x.Comment, st.E.Zero(et))
		fr.env[x] = &PtrV{Obj: o}
	case *ssa.Store:
		p := st.val(fr, x.Addr).(*PtrV)
		st.store(p, st.val(fr, x.Val))
	case *ssa.UnOp:
		fr.env[x] = st.unop(fr, x)
	case *ssa.BinOp:
		fr.env[x] = st.binop(x.Op, st.val(fr, x.X), st.val(fr, x.Y), x.X.Type(), x.Y.Type())
	case *ssa.Phi:
		for i, p := range fr.block.Preds {
			if p == fr.prev {
				fr.env[x] = st.val(fr, x.Edges[i])
				return nil
			}
		}
		panic("phi: no matching predecessor")
	case *ssa.Jump:
		return fr.block.Succs[0]
	case *ssa.If:
		c := st.val(fr, x.Cond).(*Term)
		if st.Branch(c) {
			return fr.block.Succs[0]
		}
		return fr.block.Succs[1]
	case *ssa.Return:
		switch len(x.Results) {
		case 0:
			fr.result = nil
		case 1:
			fr.result = st.val(fr, x.Results[0])
		default:
			fr.result = TupleV(st.vals(fr, x.Results))
		}
		fr.returned = true
	case *ssa.RunDefers:
		st.runDefers(fr)
		if fr.panicking != nil {
			p := fr.panicking
			panic(&goPanic{Info: p})
		}
	case *ssa.Panic:
		v := st.val(fr, x.X)
		if st.E.Trace {
			fmt.Printf("    explicit panic %s @%s\n", st.showDeep(v, 3), st.whereAmI())
		}
		st.throw(&PanicInfo{Kind: "explicit", Val: v})
	case *ssa.Call:
		fr.env[x] = st.doCall(fr, &x.Call, x)
	case *ssa.Defer:
		fnv, args := st.prepareCall(fr, &x.Call)
		fr.defers = append(fr.defers, deferred{fn: fnv, args: args, call: &x.Call})
	case *ssa.Go:
		fnv, args := st.prepareCall(fr, &x.Call)
		st.E.goStmt(st, fr, fnv, args)
	case *ssa.MakeClosure:
		st.closureID++
		fr.env[x] = &FuncV{Fn: x.Fn.(*ssa.Function), Env: st.vals(fr, x.Bindings), ID: st.closureID}
	case *ssa.MakeInterface:
		fr.env[x] = &IfaceV{T: x.X.Type(), V: st.val(fr, x.X)}
	case *ssa.ChangeInterface:
		fr.env[x] = st.val(fr, x.X)
	case *ssa.ChangeType:
		fr.env[x] = st.val(fr, x.X)
	case *ssa.Convert:
		fr.env[x] = st.convert(st.val(fr, x.X), x.X.Type(), x.Type())
	case *ssa.TypeAssert:
		fr.env[x] = st.typeAssert(fr, x)
	case *ssa.Extract:
		fr.env[x] = st.val(fr, x.Tuple).(TupleV)[x.Index]
	case *ssa.FieldAddr:
		p := st.val(fr, x.X).(*PtrV)
		if p.Obj == nil {
			st.throwRuntime("nil", "nil pointer dereference (field address)")
		}
		np := make([]int, len(p.Path)+1)
		copy(np, p.Path)
		np[len(p.Path)] = x.Field
		fr.env[x] = &PtrV{Obj: p.Obj, Path: np}
	case *ssa.Field:
		fr.env[x] = st.val(fr, x.X).(*StructV).F[x.Field]
	case *ssa.IndexAddr:
		fr.env[x] = st.indexAddr(fr, x)
	case *ssa.Index:
		fr.env[x] = st.index(fr, x)
	case *ssa.Lookup:
		fr.env[x] = st.lookup(fr, x)
	case *ssa.MapUpdate:
		st.mapUpdate(st.val(fr, x.Map), st.val(fr, x.Key), st.val(fr, x.Value))
	case *ssa.MakeMap:
		o := st.newObject(x.Type(), "map", &MapData{})
		fr.env[x] = &MapV{Obj: o}
	case *ssa.MakeSlice:
		n := st.concreteInt(st.val(fr, x.Len), "make len")
		c := st.concreteInt(st.val(fr, x.Cap), "make cap")
		et := x.Type().Underlying().(*types.Slice).Elem()
		fr.env[x] = st.makeSlice(et, n, c)
	case *ssa.MakeChan:
		o := st.newObject(x.Type(), "chan", &StructV{})
		fr.env[x] = &ChanV{Obj: o}
	case *ssa.Slice:
		fr.env[x] = st.sliceOp(fr, x)
	case *ssa.Range:
		fr.env[x] = st.rangeInit(st.val(fr, x.X))
	case *ssa.Next:
		fr.env[x] = st.rangeNext(st.val(fr, x.Iter).(*RangeIter), x)
	case *ssa.Send:
		st.E.chanSend(st, fr, st.val(fr, x.Chan), st.val(fr, x.X))
	case *ssa.Select:
		fr.env[x] = st.E.selectStmt(st, fr, x)
	case *ssa.SliceToArrayPointer:
		st.unsupported("SliceToArrayPointer")
	case *ssa.MultiConvert:
		st.unsupported("MultiConvert")
	default:
		st.unsupported("instruction %T", ins)
	}
	return nil
}

// ---- constants and zero values ----

func (e *Engine) intTerm(v *big.Int, t types.Type) *Term {
	bits, signed := intInfo(t)
	if e.IntMode {
		x := IntT(v)
		return WrapInt(x, bits, signed)
	}
	return BVT(v, bits)
}

func intInfo(t types.Type) (bits int, signed bool) {
	b, ok := t.Underlying().(*types.Basic)
	if !ok {
		panic(fmt.Sprintf("intInfo: not basic: %s", t))
	}
	switch b.Kind() {
	case types.Int, types.Int64, types.UntypedInt, types.UntypedRune:
		return 64, true
	case types.Int8:
		return 8, true
	case types.Int16:
		return 16, true
	case types.Int32:
		return 32, true
	case types.Uint, types.Uint64, types.Uintptr:
		return 64, false
	case types.Uint8:
		return 8, false
	case types.Uint16:
		return 16, false
	case types.Uint32:
		return 32, false
	}
	panic(fmt.Sprintf("intInfo: not an integer type: %s", t))
}

func isIntType(t types.Type) bool {
	b, ok := t.Underlying().(*types.Basic)
	return ok && b.Info()&types.IsInteger != 0
}
func isStringType(t types.Type) bool {
	b, ok := t.Underlying().(*types.Basic)
	return ok && b.Info()&types.IsString != 0
}
func isBoolType(t types.Type) bool {
	b, ok := t.Underlying().(*types.Basic)
	return ok && b.Info()&types.IsBoolean != 0
}
func isFloatType(t types.Type) bool {
	b, ok := t.Underlying().(*types.Basic)
	return ok && b.Info()&types.IsFloat != 0
}
func isComplexType(t types.Type) bool {
	b, ok := t.Underlying().(*types.Basic)
	return ok && b.Info()&types.IsComplex != 0
}

func (e *Engine) constValue(c *ssa.Const) Value {
	t := c.Type()
	if c.Value == nil {
		return e.Zero(t)
	}
	if tp, ok := t.(*types.TypeParam); ok {
		_ = tp
		panic("engine: type parameter constant")
	}
	switch {
	case isBoolType(t):
		return BoolT(constant.BoolVal(c.Value))
	case isStringType(t):
		return StrT(constant.StringVal(c.Value))
	case isIntType(t):
		v, _ := new(big.Int).SetString(constant.ToInt(c.Value).ExactString(), 10)
		return e.intTerm(v, t)
	case isFloatType(t):
		f, _ := constant.Float64Val(c.Value)
		return e.floatConst(f, t)
	case isComplexType(t):
		re, _ := constant.Float64Val(constant.Real(c.Value))
		im, _ := constant.Float64Val(constant.Imag(c.Value))
		ft := types.Typ[types.Float64]
		if t.Underlying().(*types.Basic).Kind() == types.Complex64 {
			ft = types.Typ[types.Float32]
		}
		return &StructV{F: []Value{e.floatConst(re, ft), e.floatConst(im, ft)}}
	}
	panic(fmt.Sprintf("engine: constant of type %s", t))
}

// Zero builds the zero value of a type.
func (e *Engine) Zero(t types.Type) Value {
	if z, ok := e.zeroHook(t); ok {
		return z
	}
	switch u := t.Underlying().(type) {
	case *types.Basic:
		switch {
		case u.Info()&types.IsBoolean != 0:
			return FalseT
		case u.Info()&types.IsString != 0:
			return StrT("")
		case u.Info()&types.IsInteger != 0:
			return e.intTerm(big.NewInt(0), t)
		case u.Info()&types.IsFloat != 0:
			return e.floatConst(0, t)
		case u.Info()&types.IsComplex != 0:
			ft := types.Typ[types.Float64]
			if u.Kind() == types.Complex64 {
				ft = types.Typ[types.Float32]
			}
			return &StructV{F: []Value{e.floatConst(0, ft), e.floatConst(0, ft)}}
		case u.Kind() == types.UnsafePointer:
			return &PtrV{}
		case u.Kind() == types.UntypedNil:
			return &PtrV{}
		}
	case *types.Pointer:
		return &PtrV{}
	case *types.Struct:
		f := make([]Value, u.NumFields())
		for i := range f {
			f[i] = e.Zero(u.Field(i).Type())
		}
		return &StructV{F: f}
	case *types.Array:
		n := int(u.Len())
		el := make([]Value, n)
		if n > 0 {
			z := e.Zero(u.Elem())
			for i := range el {
				el[i] = z
			}
		}
		return &ArrayV{E: el}
	case *types.Slice:
		return &SliceV{}
	case *types.Map:
		return &MapV{}
	case *types.Chan:
		return &ChanV{}
	case *types.Interface:
		return &IfaceV{}
	case *types.Signature:
		return &FuncV{}
	case *types.Tuple:
		r := make(TupleV, u.Len())
		for i := range r {
			r[i] = e.Zero(u.At(i).Type())
		}
		return r
	}
	panic(fmt.Sprintf("engine: zero value of %s", t))
}

func (e *Engine) zeroResults(res *types.Tuple) Value {
	switch res.Len() {
	case 0:
		return nil
	case 1:
		return e.Zero(res.At(0).Type())
	}
	return e.Zero(res)
}

// concreteInt demands a constant integer.
func (st *State) concreteInt(v Value, what string) int {
	t := v.(*Term)
	if !t.Const && t.Sort == SInt {
		// case split: a symbolic integer that must be concrete here (an index, a length, a
		// shift count of the reflect model) is enumerated over the values the path allows,
		// as long as they are few (the harness intrinsic vConcretizeInt does the same on request)
		for k := -1; k <= 64; k++ {
			if st.Branch(Eq(t, IntT64(int64(k)))) {
				return k
			}
		}
		st.unsupported("symbolic %s outside -1..64", what)
	}
	if !t.Const {
		st.unsupported("symbolic %s", what)
	}
	if t.Sort == SBV {
		return int(signedVal(t).Int64())
	}
	return int(t.CI.Int64())
}

// intToIndex converts an integer term of Go type t into an Int-sorted term
// (the mathematical value), for use as index or length.
func (st *State) mathInt(v *Term, t types.Type) *Term {
	if v.Sort == SInt {
		return v
	}
	_, signed := intInfo(t)
	if v.Const {
		if signed {
			return IntT(signedVal(v))
		}
		return IntT(v.CI)
	}
	if signed {
		// two's complement value
		m := new(big.Int).Lsh(big.NewInt(1), uint(v.W))
		r := mk(SInt, 0, "(let ((u!x (bv2int %s))) (ite (>= u!x %s) (- u!x %s) u!x))", v.S, new(big.Int).Rsh(m, 1).String(), m.String())
		return r
	}
	r := mk(SInt, 0, "(bv2int %s)", v.S)
	r.FromBV = v
	r.Lo = big.NewInt(0)
	r.Hi = new(big.Int).Sub(new(big.Int).Lsh(big.NewInt(1), uint(v.W)), big.NewInt(1))
	return r
}

// fromMathInt converts an Int term into the representation of Go type t.
func (st *State) fromMathInt(v *Term, t types.Type) *Term {
	bits, signed := intInfo(t)
	if st.E.IntMode {
		return WrapInt(v, bits, signed)
	}
	if v.Const {
		return BVT(v.CI, bits)
	}
	return mk(SBV, bits, "((_ int2bv %d) %s)", bits, v.S)
}

var _ = token.ADD
