package sym

import (
	"fmt"
	"go/types"
	"math/big"
)

// Intrinsics for unbounded integers (harness type vBig = SMT Int), go/constant
// values and reflect types, used by the C02/C03 harnesses.
func registerBigIntrinsics(e *Engine) {
	I := e.Intrinsics
	e.zeroHooks = append(e.zeroHooks, func(t types.Type) (Value, bool) {
		if n, ok := t.(*types.Named); ok && n.Obj().Name() == "vBig" {
			return IntT64(0), true
		}
		return nil, false
	})
	I["vBigNondet"] = func(st *State, a []Value) Value {
		label := constStr(st, a[0], "nondet label")
		x := st.FreshTerm(label, SInt, 0)
		st.nondets = append(st.nondets, NondetRec{Label: label, Name: x.S, Sort: SInt, Kind: "big"})
		return x
	}
	I["vBigInt64"] = func(st *State, a []Value) Value { return st.mathInt(a[0].(*Term), types.Typ[types.Int64]) }
	I["vBigUint64"] = func(st *State, a []Value) Value { return st.mathInt(a[0].(*Term), types.Typ[types.Uint64]) }
	// vBigToUint64: the value as a uint64 (the harness guarantees 0 <= x < 2^64)
	I["vBigToUint64"] = func(st *State, a []Value) Value {
		x := a[0].(*Term)
		lo, hi := intRange(64, false)
		if !st.Branch(And(IntLe(IntT(lo), x), IntLe(x, IntT(hi)))) {
			return st.fromMathInt(WrapInt(x, 64, false), types.Typ[types.Uint64])
		}
		xr := &Term{S: x.S, Sort: SInt, Const: x.Const, CI: x.CI, Lo: lo, Hi: hi, Lin: x.Lin}
		return st.fromMathInt(xr, types.Typ[types.Uint64])
	}
	I["vBigAdd"] = func(st *State, a []Value) Value { return IntAdd(a[0].(*Term), a[1].(*Term)) }
	I["vBigSub"] = func(st *State, a []Value) Value { return IntSub(a[0].(*Term), a[1].(*Term)) }
	I["vBigMul"] = func(st *State, a []Value) Value { return IntMul(a[0].(*Term), a[1].(*Term)) }
	I["vBigNeg"] = func(st *State, a []Value) Value { return IntNeg(a[0].(*Term)) }
	I["vBigQuo"] = func(st *State, a []Value) Value { return IntTDiv(a[0].(*Term), a[1].(*Term)) }
	I["vBigRem"] = func(st *State, a []Value) Value { return IntTRem(a[0].(*Term), a[1].(*Term)) }
	I["vBigLe"] = func(st *State, a []Value) Value { return IntLe(a[0].(*Term), a[1].(*Term)) }
	I["vBigLt"] = func(st *State, a []Value) Value { return IntLt(a[0].(*Term), a[1].(*Term)) }
	I["vBigEq"] = func(st *State, a []Value) Value { return Eq(a[0].(*Term), a[1].(*Term)) }
	I["vBigPow2"] = func(st *State, a []Value) Value {
		n := st.concreteInt(a[0], "power of two exponent")
		return IntT(new(big.Int).Lsh(big.NewInt(1), uint(n)))
	}
	// wrap to a machine width (two's complement), as a conversion would
	I["vBigWrap"] = func(st *State, a []Value) Value {
		bits := st.concreteInt(a[1], "bits")
		signed := a[2].(*Term)
		if !signed.Const {
			st.unsupported("vBigWrap with symbolic signedness")
		}
		return WrapInt(a[0].(*Term), bits, signed.CB)
	}
	obs := func(kind string, t types.Type) HookFn {
		return func(st *State, a []Value) Value {
			label := constStr(st, a[0], "observation label")
			var val string
			switch v := a[1].(type) {
			case *Term:
				tm := v
				if t != nil && tm.Sort != SInt && tm.Sort != SBool && tm.Sort != SString {
					tm = st.mathInt(v, t)
				}
				if !tm.Const {
					// pinned inputs: the value is unique; ask the solver
					if st.pathFeasible() {
						if vals, err := st.E.Solver.GetValues([]string{tm.S}); err == nil {
							for _, x := range vals {
								val = fmt.Sprint(ParseSMTValue(x))
							}
						}
					}
				} else {
					switch tm.Sort {
					case SBool:
						val = fmt.Sprint(tm.CB)
					case SString:
						val = tm.CS
					default:
						val = tm.CI.String()
					}
				}
			default:
				val = fmt.Sprintf("<%T>", v)
			}
			st.E.Observations = append(st.E.Observations, label+"="+val)
			return nil
		}
	}
	I["vObserveInt"] = obs("int", types.Typ[types.Int64])
	I["vObserveUint"] = obs("uint", types.Typ[types.Uint64])
	I["vObserveBool"] = obs("bool", nil)
	I["vObserveString"] = obs("string", nil)
	I["vObserveBig"] = obs("big", nil)
	I["vConstOfBig"] = func(st *State, a []Value) Value { return mkConstInt(a[0].(*Term)) }
	I["vBigOfConst"] = func(st *State, a []Value) Value {
		k, iv := constKindOf(st, a[0])
		if k != ckInt {
			st.unsupported("vBigOfConst on a non-Int constant")
		}
		return iv.V
	}
	I["vConstKindIs"] = func(st *State, a []Value) Value {
		k, _ := constKindOf(st, a[0])
		return BoolT(k == st.concreteInt(a[1], "kind"))
	}
	I["vConstFloatOpaque"] = func(st *State, a []Value) Value { return &IfaceV{T: constFloatT, V: IntT64(0)} }
	I["vTypeOfKind"] = func(st *State, a []Value) Value {
		k := st.concreteInt(a[0], "reflect kind")
		return rtypeIface(st.E.rtypeOfKind(k))
	}
	I["vConstValType"] = func(st *State, a []Value) Value {
		// the reflect.Type of the constant.Value interface
		p := st.E.P.Package("go/constant")
		if p == nil {
			st.unsupported("go/constant not loaded")
		}
		gt := p.Type("Value").Type()
		return rtypeIface(&RType{Kind: rkInterface, GoType: gt})
	}
}
