package sym

import (
	"bufio"
	"fmt"
	"io"
	"os/exec"
	"strings"
	"sync"
	"time"
)

// Solver drives one long-lived SMT solver process over SMT-LIB2 text.
type Solver struct {
	Name    string
	cmd     *exec.Cmd
	in      io.WriteCloser
	out     *bufio.Reader
	mu      sync.Mutex
	Queries int
	Time    time.Duration
	Errors  int
	Log     io.Writer
	argv    []string
	timeout int // ms per query
	depth   int
}

// SolverArgv returns the command line for a named back end.
func SolverArgv(name string, timeoutMs int) []string {
	switch name {
	case "z3":
		return []string{"z3", "-in", fmt.Sprintf("-t:%d", timeoutMs)}
	case "z3-new":
		return []string{"z3-new", "-in", fmt.Sprintf("-t:%d", timeoutMs)}
	case "cvc5":
		return []string{"cvc5", "--incremental", "--strings-exp", "--lang=smt2", fmt.Sprintf("--tlimit-per=%d", timeoutMs), "--produce-models"}
	}
	panic("unknown solver " + name)
}

func NewSolver(name string, timeoutMs int) (*Solver, error) {
	s := &Solver{Name: name, argv: SolverArgv(name, timeoutMs), timeout: timeoutMs}
	if err := s.start(); err != nil {
		return nil, err
	}
	return s, nil
}

func (s *Solver) start() error {
	s.cmd = exec.Command(s.argv[0], s.argv[1:]...)
	in, err := s.cmd.StdinPipe()
	if err != nil {
		return err
	}
	out, err := s.cmd.StdoutPipe()
	if err != nil {
		return err
	}
	s.cmd.Stderr = s.cmd.Stdout
	if err := s.cmd.Start(); err != nil {
		return err
	}
	s.in = in
	s.out = bufio.NewReaderSize(out, 1<<20)
	s.depth = 0
	if s.Name == "cvc5" {
		s.send("(set-logic ALL)")
	}
	s.send("(set-option :produce-models true)")
	return nil
}

func (s *Solver) Close() {
	if s.cmd != nil {
		s.in.Close()
		s.cmd.Process.Kill()
		s.cmd.Wait()
		s.cmd = nil
	}
}

func (s *Solver) send(line string) {
	if s.Log != nil {
		fmt.Fprintln(s.Log, line)
	}
	io.WriteString(s.in, line)
	io.WriteString(s.in, "\n")
}

// Cmd sends a command that produces no output on success.
func (s *Solver) Cmd(line string) { s.send(line) }

func (s *Solver) Push() { s.send("(push 1)"); s.depth++ }
func (s *Solver) Pop()  { s.send("(pop 1)"); s.depth-- }

// Reset returns the solver to a pristine state.
func (s *Solver) Reset() {
	s.send("(reset)")
	s.depth = 0
	if s.Name == "cvc5" {
		s.send("(set-logic ALL)")
	}
	s.send("(set-option :produce-models true)")
}

// readAnswer reads lines until a marker echoed after the command.
func (s *Solver) readUntilMarker() (string, error) {
	var sb strings.Builder
	for {
		line, err := s.out.ReadString('\n')
		if err != nil {
			return sb.String(), err
		}
		t := strings.TrimSpace(line)
		if t == "\"@@done@@\"" || t == "@@done@@" {
			return sb.String(), nil
		}
		sb.WriteString(line)
	}
}

// Check runs (check-sat) and returns "sat", "unsat" or "unknown"; any error
// line makes the answer "error".
func (s *Solver) Check() string {
	t0 := time.Now()
	s.send("(check-sat)")
	s.send("(echo \"@@done@@\")")
	out, err := s.readUntilMarker()
	s.Queries++
	s.Time += time.Since(t0)
	if s.Log != nil {
		fmt.Fprintf(s.Log, "; [%dms] => %s", time.Since(t0).Milliseconds(), out)
	}
	if err != nil {
		s.Errors++
		return "error"
	}
	if strings.Contains(out, "(error") {
		s.Errors++
		if s.Log != nil {
			fmt.Fprintf(s.Log, "; ERROR %s\n", out)
		}
		return "error"
	}
	res := "unknown"
	for _, l := range strings.Split(out, "\n") {
		l = strings.TrimSpace(l)
		switch l {
		case "sat", "unsat", "unknown":
			res = l
		case "timeout":
			res = "unknown"
		}
	}
	return res
}

// GetValues asks for the values of the named constants after a sat answer.
func (s *Solver) GetValues(names []string) (map[string]string, error) {
	res := map[string]string{}
	if len(names) == 0 {
		return res, nil
	}
	for _, n := range names {
		s.send("(get-value (" + n + "))")
		s.send("(echo \"@@done@@\")")
		out, err := s.readUntilMarker()
		if err != nil {
			return nil, err
		}
		if strings.Contains(out, "(error") {
			return nil, fmt.Errorf("get-value: %s", out)
		}
		out = strings.TrimSpace(out)
		// ((name value))
		if !strings.HasPrefix(out, "((") {
			return nil, fmt.Errorf("get-value: unexpected %q", out)
		}
		body := strings.TrimSpace(out[2 : len(out)-2])
		// body is "<term> <value>": skip the term (balanced parentheses or one token)
		end := 0
		if strings.HasPrefix(body, "(") {
			depth := 0
			inStr := false
			for i := 0; i < len(body); i++ {
				c := body[i]
				if c == '"' {
					inStr = !inStr
				}
				if inStr {
					continue
				}
				if c == '(' {
					depth++
				}
				if c == ')' {
					depth--
					if depth == 0 {
						end = i + 1
						break
					}
				}
			}
		} else {
			end = strings.IndexAny(body, " \t\n")
		}
		if end <= 0 || end > len(body) {
			return nil, fmt.Errorf("get-value: unexpected %q", out)
		}
		res[n] = strings.TrimSpace(body[end:])
	}
	return res, nil
}
