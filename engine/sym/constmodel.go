package sym

import (
	"fmt"
	"go/token"
	"go/types"
	"math/big"
	"strconv"
	"strings"
)

// Model of go/constant for the Int, String and Bool kinds (exact, unbounded
// integers as SMT Int). Float and Complex values exist only as opaque values
// (kind known, value not interpreted); operations that would need their value
// are reported unsupported.

func fakeNamed(name string) types.Type {
	return types.NewNamed(types.NewTypeName(token.NoPos, nil, name, nil), types.NewStruct(nil, nil), nil)
}

var (
	constIntT     = fakeNamed("symconst.Int")
	constStrT     = fakeNamed("symconst.String")
	constBoolT    = fakeNamed("symconst.Bool")
	constFloatT   = fakeNamed("symconst.Float")
	constUnknownT = fakeNamed("symconst.Unknown")
)

const (
	ckUnknown = iota
	ckBool
	ckString
	ckInt
	ckFloat
	ckComplex
)

func constKindOf(st *State, v Value) (int, *IfaceV) {
	iv, ok := v.(*IfaceV)
	if !ok || iv.T == nil {
		st.throwRuntime("nil", "nil constant.Value")
	}
	switch iv.T {
	case constIntT:
		return ckInt, iv
	case constStrT:
		return ckString, iv
	case constBoolT:
		return ckBool, iv
	case constFloatT:
		return ckFloat, iv
	case constUnknownT:
		return ckUnknown, iv
	}
	st.unsupported("constant.Value with dynamic type %s", iv.T)
	return 0, nil
}

func mkConstInt(t *Term) Value { return &IfaceV{T: constIntT, V: t} }

func isConstModelType(t types.Type) bool {
	return t == constIntT || t == constStrT || t == constBoolT || t == constFloatT || t == constUnknownT
}

// intOfMachine converts a machine integer term of Go type t into an SInt term.
func (st *State) bigOfMachine(v *Term, t types.Type) *Term { return st.mathInt(v, t) }

func registerConstModel(e *Engine) {
	H := e.Hooks
	intT := types.Typ[types.Int]
	kindT := types.Typ[types.Int] // constant.Kind is an int type
	// methods through the interface
	for _, ct := range []types.Type{constIntT, constStrT, constBoolT, constFloatT, constUnknownT} {
		name := ct.String()
		ct := ct
		H["("+name+").Kind"] = func(st *State, a []Value) Value {
			k, _ := constKindOf(st, &IfaceV{T: ct, V: a[0]})
			return st.E.intTerm(big.NewInt(int64(k)), kindT)
		}
		H["("+name+").String"] = func(st *State, a []Value) Value { return StrT("<const>") }
		H["("+name+").ExactString"] = func(st *State, a []Value) Value { return StrT("<const>") }
	}
	H["go/constant.MakeInt64"] = func(st *State, a []Value) Value {
		return mkConstInt(st.mathInt(a[0].(*Term), types.Typ[types.Int64]))
	}
	H["go/constant.MakeUint64"] = func(st *State, a []Value) Value {
		return mkConstInt(st.mathInt(a[0].(*Term), types.Typ[types.Uint64]))
	}
	// MakeFromLiteral on constant arguments: integers and characters exactly,
	// the other kinds as an opaque value that remembers its literal.
	H["go/constant.MakeFromLiteral"] = func(st *State, a []Value) Value {
		lt, ok1 := a[0].(*Term)
		tt, ok2 := a[1].(*Term)
		if !ok1 || !ok2 || !lt.Const || !tt.Const || tt.CI == nil {
			st.unsupported("constant.MakeFromLiteral on non-constant arguments")
		}
		tok := token.Token(tt.CI.Int64())
		if tok == token.INT {
			if v, ok := new(big.Int).SetString(strings.ReplaceAll(lt.CS, "_", ""), 0); ok {
				return mkConstInt(IntT(v))
			}
		}
		if tok == token.STRING {
			if u, err := strconv.Unquote(lt.CS); err == nil {
				return &IfaceV{T: constStrT, V: StrT(u)}
			}
		}
		if tok == token.CHAR {
			if u, _, _, err := strconv.UnquoteChar(strings.Trim(lt.CS, "'"), '\''); err == nil {
				return mkConstInt(IntT64(int64(u)))
			}
		}
		st.E.objCtr++
		ty := constFloatT
		if tok == token.STRING || tok == token.CHAR {
			ty = constUnknownT
		}
		return &IfaceV{T: ty, V: &OpaqueV{Name: "lit:" + tok.String() + ":" + lt.CS, ID: st.E.objCtr}}
	}
	H["go/constant.MakeBool"] = func(st *State, a []Value) Value { return &IfaceV{T: constBoolT, V: a[0]} }
	H["go/constant.MakeString"] = func(st *State, a []Value) Value { return &IfaceV{T: constStrT, V: a[0]} }
	H["go/constant.BoolVal"] = func(st *State, a []Value) Value {
		k, iv := constKindOf(st, a[0])
		if k != ckBool {
			st.unsupported("BoolVal of non-bool constant")
		}
		return iv.V
	}
	H["go/constant.StringVal"] = func(st *State, a []Value) Value {
		k, iv := constKindOf(st, a[0])
		if k != ckString {
			return StrT("")
		}
		return iv.V
	}
	H["go/constant.ToInt"] = func(st *State, a []Value) Value {
		k, iv := constKindOf(st, a[0])
		switch k {
		case ckInt:
			return iv
		case ckFloat:
			// an opaque float: integral or not, nondeterministically; if integral its value is free
			if st.Branch(st.FreshTerm("float_is_integral", SBool, 0)) {
				return mkConstInt(st.FreshTerm("float_int_value", SInt, 0))
			}
		}
		return &IfaceV{T: constUnknownT, V: IntT64(0)}
	}
	H["go/constant.ToFloat"] = func(st *State, a []Value) Value {
		k, iv := constKindOf(st, a[0])
		switch k {
		case ckInt, ckFloat:
			return &IfaceV{T: constFloatT, V: iv.V}
		}
		return &IfaceV{T: constUnknownT, V: IntT64(0)}
	}
	H["go/constant.ToComplex"] = func(st *State, a []Value) Value {
		k, _ := constKindOf(st, a[0])
		switch k {
		case ckInt, ckFloat:
			st.unsupported("constant.ToComplex of a numeric constant (complex constants are not modelled)")
		}
		return &IfaceV{T: constUnknownT, V: IntT64(0)}
	}
	H["go/constant.Int64Val"] = func(st *State, a []Value) Value {
		k, iv := constKindOf(st, a[0])
		if k != ckInt {
			st.unsupported("Int64Val of a non-Int constant")
		}
		x := iv.V.(*Term)
		lo, hi := intRange(64, true)
		exact := And(IntLe(IntT(lo), x), IntLe(x, IntT(hi)))
		if st.Branch(exact) {
			xr := &Term{S: x.S, Sort: SInt, Const: x.Const, CI: x.CI, Lo: lo, Hi: hi, Lin: x.Lin}
			return TupleV{st.fromMathInt(xr, types.Typ[types.Int64]), TrueT}
		}
		return TupleV{st.fromMathInt(WrapInt(x, 64, true), types.Typ[types.Int64]), FalseT}
	}
	H["go/constant.Uint64Val"] = func(st *State, a []Value) Value {
		k, iv := constKindOf(st, a[0])
		if k != ckInt {
			st.unsupported("Uint64Val of a non-Int constant")
		}
		x := iv.V.(*Term)
		lo, hi := intRange(64, false)
		exact := And(IntLe(IntT(lo), x), IntLe(x, IntT(hi)))
		if st.Branch(exact) {
			xr := &Term{S: x.S, Sort: SInt, Const: x.Const, CI: x.CI, Lo: lo, Hi: hi, Lin: x.Lin}
			return TupleV{st.fromMathInt(xr, types.Typ[types.Uint64]), TrueT}
		}
		return TupleV{st.fromMathInt(WrapInt(x, 64, false), types.Typ[types.Uint64]), FalseT}
	}
	H["go/constant.Sign"] = func(st *State, a []Value) Value {
		k, iv := constKindOf(st, a[0])
		if k != ckInt {
			st.unsupported("Sign of a non-Int constant")
		}
		x := iv.V.(*Term)
		return st.fromMathInt(Ite(IntLt(x, IntT64(0)), IntT64(-1), Ite(Eq(x, IntT64(0)), IntT64(0), IntT64(1))), intT)
	}
	// BitLen(x) = number of bits of |x|. Exact up to 80 bits; beyond that an
	// unconstrained value > 80 (sound over-approximation for comparisons with
	// machine widths).
	H["go/constant.BitLen"] = func(st *State, a []Value) Value {
		k, iv := constKindOf(st, a[0])
		if k != ckInt {
			st.unsupported("BitLen of a non-Int constant")
		}
		x := iv.V.(*Term)
		abs := Ite(IntLt(x, IntT64(0)), IntNeg(x), x)
		if abs.Const {
			return st.E.intTerm(big.NewInt(int64(abs.CI.BitLen())), intT)
		}
		big80 := st.FreshTerm("bitlen_large", SInt, 0)
		st.assertTerm(IntLt(IntT64(80), big80))
		res := big80
		for n := 80; n >= 0; n-- {
			p := IntT(new(big.Int).Lsh(big.NewInt(1), uint(n)))
			res = Ite(IntLt(abs, p), IntT64(int64(n)), res)
		}
		res.Lo = big.NewInt(0)
		return st.fromMathInt(res, intT)
	}
	H["go/constant.Compare"] = func(st *State, a []Value) Value {
		kx, x := constKindOf(st, a[0])
		ky, y := constKindOf(st, a[2])
		op := token.Token(st.concreteInt(a[1], "token"))
		if kx != ky {
			st.unsupported("Compare of constants of different kinds")
		}
		switch kx {
		case ckInt:
			xt, yt := x.V.(*Term), y.V.(*Term)
			switch op {
			case token.EQL:
				return Eq(xt, yt)
			case token.NEQ:
				return Not(Eq(xt, yt))
			case token.LSS:
				return IntLt(xt, yt)
			case token.LEQ:
				return IntLe(xt, yt)
			case token.GTR:
				return IntLt(yt, xt)
			case token.GEQ:
				return IntLe(yt, xt)
			}
		case ckString:
			xt, yt := x.V.(*Term), y.V.(*Term)
			switch op {
			case token.EQL:
				return Eq(xt, yt)
			case token.NEQ:
				return Not(Eq(xt, yt))
			case token.LSS:
				return StrLt(xt, yt)
			case token.LEQ:
				return StrLe(xt, yt)
			case token.GTR:
				return StrLt(yt, xt)
			case token.GEQ:
				return StrLe(yt, xt)
			}
		case ckBool:
			xt, yt := x.V.(*Term), y.V.(*Term)
			switch op {
			case token.EQL:
				return Eq(xt, yt)
			case token.NEQ:
				return Not(Eq(xt, yt))
			}
		}
		st.unsupported("constant.Compare %s on kind %d", op, kx)
		return nil
	}
	H["go/constant.BinaryOp"] = func(st *State, a []Value) Value {
		kx, x := constKindOf(st, a[0])
		ky, y := constKindOf(st, a[2])
		op := token.Token(st.concreteInt(a[1], "token"))
		if kx == ckUnknown || ky == ckUnknown {
			return &IfaceV{T: constUnknownT, V: IntT64(0)}
		}
		if kx != ky {
			st.unsupported("BinaryOp on constants of different kinds (%d,%d)", kx, ky)
		}
		switch kx {
		case ckInt:
			xt, yt := x.V.(*Term), y.V.(*Term)
			switch op {
			case token.ADD:
				return mkConstInt(IntAdd(xt, yt))
			case token.SUB:
				return mkConstInt(IntSub(xt, yt))
			case token.MUL:
				return mkConstInt(IntMul(xt, yt))
			case token.QUO_ASSIGN:
				if st.Branch(Eq(yt, IntT64(0))) {
					st.throw(&PanicInfo{Kind: "divide", Detail: "division by zero (go/constant)", Val: &IfaceV{T: types.Typ[types.String], V: StrT("division by zero")}})
				}
				// go/constant divides int64-sized operands with machine arithmetic:
				// MinInt64 / -1 wraps to MinInt64 (validated against the real library)
				minI := IntT(new(big.Int).Lsh(big.NewInt(-1), 63))
				wraps := And(Eq(xt, minI), Eq(yt, IntT64(-1)))
				return mkConstInt(Ite(wraps, minI, IntTDiv(xt, yt)))
			case token.REM:
				if st.Branch(Eq(yt, IntT64(0))) {
					st.throw(&PanicInfo{Kind: "divide", Detail: "division by zero (go/constant)", Val: &IfaceV{T: types.Typ[types.String], V: StrT("division by zero")}})
				}
				return mkConstInt(IntTRem(xt, yt))
			case token.QUO:
				if st.Branch(Eq(yt, IntT64(0))) {
					st.throw(&PanicInfo{Kind: "divide", Detail: "division by zero (go/constant)", Val: &IfaceV{T: types.Typ[types.String], V: StrT("division by zero")}})
				}
				// exact quotient: an Int when divisible, else a (opaque) Float
				if st.Branch(Eq(IntTRem(xt, yt), IntT64(0))) {
					return mkConstInt(IntTDiv(xt, yt))
				}
				if xt.Const && yt.Const {
					// an exact rational: opaque to the solver, but it remembers its value
					st.E.objCtr++
					return &IfaceV{T: constFloatT, V: &OpaqueV{Name: "lit:RAT:" + xt.CI.String() + "/" + yt.CI.String(), ID: st.E.objCtr}}
				}
				return &IfaceV{T: constFloatT, V: IntT64(0)}
			}
			if op == token.AND || op == token.OR || op == token.XOR || op == token.AND_NOT {
				// bitwise operators: modelled for operands in [0, 2^64) (two's complement of
				// unbounded negative integers is outside the model)
				lo, hi := intRange(64, false)
				inRange := And(IntLe(IntT(lo), xt), IntLe(xt, IntT(hi)), IntLe(IntT(lo), yt), IntLe(yt, IntT(hi)))
				if !st.Branch(inRange) {
					st.unsupported("constant.BinaryOp %s on integers outside [0, 2^64)", op)
				}
				r := st.intBinopInt(op, xt, yt, 64, false, types.Typ[types.Uint64]).(*Term)
				return mkConstInt(r)
			}
			st.unsupported("constant.BinaryOp %s on Int", op)
		case ckString:
			if op == token.ADD {
				return &IfaceV{T: constStrT, V: StrConcat(x.V.(*Term), y.V.(*Term))}
			}
		case ckBool:
			xt, yt := x.V.(*Term), y.V.(*Term)
			switch op {
			case token.LAND:
				return &IfaceV{T: constBoolT, V: And(xt, yt)}
			case token.LOR:
				return &IfaceV{T: constBoolT, V: Or(xt, yt)}
			}
		}
		st.unsupported("constant.BinaryOp %s on kind %d", op, kx)
		return nil
	}
	H["go/constant.UnaryOp"] = func(st *State, a []Value) Value {
		op := token.Token(st.concreteInt(a[0], "token"))
		k, x := constKindOf(st, a[1])
		switch {
		case k == ckInt && op == token.SUB:
			return mkConstInt(IntNeg(x.V.(*Term)))
		case k == ckInt && op == token.ADD:
			return x
		case k == ckBool && op == token.NOT:
			return &IfaceV{T: constBoolT, V: Not(x.V.(*Term))}
		case k == ckInt && op == token.XOR:
			// ^x with prec 0 (signed, unbounded): -x-1
			if pr, ok := a[2].(*Term); ok && pr.Const && pr.CI.Sign() == 0 {
				return mkConstInt(IntSub(IntNeg(x.V.(*Term)), IntT64(1)))
			}
			// prec > 0: the complement within prec bits, (-x-1) mod 2^prec
			if pr, ok := a[2].(*Term); ok && pr.Const && pr.CI.Sign() > 0 && pr.CI.IsInt64() && pr.CI.Int64() <= 4096 {
				m := IntT(new(big.Int).Lsh(big.NewInt(1), uint(pr.CI.Int64())))
				return mkConstInt(IntMod(IntSub(IntNeg(x.V.(*Term)), IntT64(1)), m))
			}
		}
		st.unsupported("constant.UnaryOp %s on kind %d", op, k)
		return nil
	}
	H["go/constant.Shift"] = func(st *State, a []Value) Value {
		k, x := constKindOf(st, a[0])
		op := token.Token(st.concreteInt(a[1], "token"))
		if k != ckInt {
			st.unsupported("constant.Shift on kind %d", k)
		}
		s := st.mathInt(a[2].(*Term), types.Typ[types.Uint])
		xt := x.V.(*Term)
		const maxShift = 128
		if !s.Const {
			if st.Branch(IntLt(IntT64(maxShift), s)) {
				st.abort("bound", fmt.Sprintf("constant shift count > %d", maxShift))
			}
		} else if s.CI.Cmp(big.NewInt(maxShift)) > 0 {
			st.abort("bound", fmt.Sprintf("constant shift count > %d", maxShift))
		}
		var res *Term
		for n := maxShift; n >= 0; n-- {
			p := IntT(new(big.Int).Lsh(big.NewInt(1), uint(n)))
			var v *Term
			if op == token.SHL {
				v = IntMul(xt, p)
			} else {
				v = IntFloorDivPos(xt, p) // floor division = arithmetic shift
				if xt.Const {
					v = IntT(new(big.Int).Rsh(xt.CI, uint(n)))
				}
			}
			if s.Const {
				if s.CI.Int64() == int64(n) {
					return mkConstInt(v)
				}
				continue
			}
			if res == nil {
				res = v
			} else {
				res = Ite(Eq(s, IntT64(int64(n))), v, res)
			}
		}
		return mkConstInt(res)
	}
	H["go/constant.Val"] = func(st *State, a []Value) Value {
		st.unsupported("constant.Val")
		return nil
	}
}
