package main

import (
	"bytes"
	"encoding/json"
	"fmt"
	"go/ast"
	"go/parser"
	"go/token"
	"os"
	"os/exec"
	"path/filepath"
	"regexp"
	"runtime/debug"
	"sort"
	"strconv"
	"strings"
	"sync"
	"time"

	"verif/engine/sym"
)

var (
	verifDir = envOr("VERIF_DIR", "/verif")
	repoDir  = envOr("VERIF_REPO", "/repo")
)

func envOr(k, d string) string {
	if v := os.Getenv(k); v != "" {
		return v
	}
	return d
}

// Oblig is one harness entry point with its bounds.
type Oblig struct {
	Harness       string         // harness function (vh_...)
	Globals       map[string]int // harness int variables set before running (bounds)
	BVMode        bool           // machine integers as bit-vectors (default: Int encoding)
	Unroll        int
	MaxPaths      int
	Solver        string // override primary solver
	FP32As        int
	TimeoutMs     int
	Setup         func(e *sym.Engine)
	Note          string
	Budget        time.Duration
	NoRedirect    bool     // run without the property's redirects (real callees)
	KeepRedirects []string // if set, only these redirects (by target model name) stay active
	DropRedirects []string // redirects (by target model name) switched off for this obligation
}

// Prop describes how one property is checked.
type Prop struct {
	ID         string
	PkgDir     string // package directory relative to repo ("interp")
	PkgPath    string // import path
	PkgName    string
	Harness    []string // files under /verif/harness
	Redirects  map[string]string
	InlinePkgs []string
	InitFiles  map[string][]string // dependency package -> files whose init functions are executed
	GenAST     bool                // run TestVerifDumpAST natively first and compile the tree builders it prints into the harness
	E2EDir     string              // harness/<dir>/*.go.txt: whole programs; each is also compiled as a twin package (the reference)
	E2EChunks  bool                // also cut each program into sequences of chunks (vhChunks), each chunk with its own tree
	Obligs     func(tier string) []Oblig
	Setup      func(e *sym.Engine)
	Solver     string // primary solver for this property's obligations
	// Validate runs the native validation test (translator, summaries, oracle
	// restatements) and returns the number of vectors pushed through.
	SampleModels   []map[string]string                                     // concrete inputs on which every discharged harness is also run natively (cross-check of the encoding)
	ValidateRun    string                                                  // go test -run pattern in the overlay test file ("" = none)
	ObserveBV      bool                                                    // also validate the observations with machine integers as bit-vectors
	ObserveHarness []string                                                // harness functions run natively AND through the engine on concrete vectors; their observations must agree
	TestFiles      []string                                                // extra _test overlay files under /verif/harness
	Instrument     []Instr                                                 // textual instrumentation of repo files, applied in the overlay (symbolic and native alike)
	ReplayRace     bool                                                    // replay under the race detector; a DATA RACE report reproduces "readonly" obligations
	Custom         func(p *Prop, tier string, seed int, evPath string) int // property-specific driver
	Bounds         []string
	Assumptions    []string
	Outside        []string
	Stubs          []string
}

// Instr replaces one exact occurrence of Old by New in a repository file.
type Instr struct{ File, Old, New string }

var props = map[string]*Prop{}

type knownFinding struct {
	Property   string `json:"property"`
	Obligation string `json:"obligation"`
	Finding    string `json:"finding"`
	What       string `json:"what"`
	Status     string `json:"status"`
	Commit     string `json:"commit,omitempty"`
}

func loadKnownFindings() []knownFinding {
	var f struct {
		Findings []knownFinding `json:"findings"`
	}
	b, err := os.ReadFile(filepath.Join(verifDir, "known_findings.json"))
	if err != nil {
		return nil
	}
	if err := json.Unmarshal(b, &f); err != nil {
		fmt.Fprintln(os.Stderr, "known_findings.json:", err)
		os.Exit(2)
	}
	return f.Findings
}

type scratch struct {
	dir     string
	overlay map[string]string // virtual path -> real path
	genPkgs []string          // import paths of generated twin packages (inlined by the engine)
}

func newScratch(p *Prop, withTests bool) (*scratch, map[string][]byte, error) {
	base := os.Getenv("TMPDIR")
	if base == "" {
		base = os.TempDir()
	}
	dir, err := os.MkdirTemp(base, "verif-"+p.ID+"-")
	if err != nil {
		return nil, nil, err
	}
	sc := &scratch{dir: dir, overlay: map[string]string{}}
	ov := map[string][]byte{}
	add := func(virtualName string, content []byte) error {
		real := filepath.Join(dir, virtualName)
		if err := os.WriteFile(real, content, 0o644); err != nil {
			return err
		}
		v := filepath.Join(repoDir, p.PkgDir, virtualName)
		sc.overlay[v] = real
		ov[v] = content
		return nil
	}
	intr, err := os.ReadFile(filepath.Join(verifDir, "harness", "intrinsics.go"))
	if err != nil {
		return nil, nil, err
	}
	intr = bytes.Replace(intr, []byte("package PKG"), []byte("package "+p.PkgName), 1)
	if err := add("zz_verif_intrinsics.go", intr); err != nil {
		return nil, nil, err
	}
	for _, h := range p.Harness {
		b, err := os.ReadFile(filepath.Join(verifDir, "harness", h))
		if err != nil {
			return nil, nil, err
		}
		if err := add("zz_verif_"+strings.ToLower(strings.TrimSuffix(h, ".go"))+".go", b); err != nil {
			return nil, nil, err
		}
	}
	if p.E2EDir != "" {
		// whole programs: the text for the interpreter, and the same text compiled as a twin
		// package <pkg>/e2e_<name> (package clause, the host import and main renamed)
		files, _ := filepath.Glob(filepath.Join(verifDir, "harness", p.E2EDir, "*.go.txt"))
		sort.Strings(files)
		var glue strings.Builder
		fmt.Fprintf(&glue, "package %s\n\nimport (\n", p.PkgName)
		var names []string
		texts := map[string]string{}
		{
			// the types of package host, shared by the harness and the twins
			sub := filepath.Join(dir, "e2e_hosttypes")
			os.MkdirAll(sub, 0o755)
			real := filepath.Join(sub, "types.go")
			if err := os.WriteFile(real, []byte(e2eHostTypes), 0o644); err != nil {
				return nil, nil, err
			}
			v := filepath.Join(repoDir, p.PkgDir, "e2e_hosttypes", "types.go")
			sc.overlay[v] = real
			ov[v] = []byte(e2eHostTypes)
			sc.genPkgs = append(sc.genPkgs, p.PkgPath+"/e2e_hosttypes")
		}
		for _, f := range files {
			name := strings.TrimSuffix(filepath.Base(f), ".go.txt")
			b, err := os.ReadFile(f)
			if err != nil {
				return nil, nil, err
			}
			names = append(names, name)
			texts[name] = string(b)
			fmt.Fprintf(&glue, "\te2e_%s %q\n", name, p.PkgPath+"/e2e_"+name)
			twin := strings.Replace(string(b), "package main", "package e2e_"+name, 1)
			twin = strings.Replace(twin, "import \"host\"", strings.Replace(e2eHostDecl, "HOSTTYPES", p.PkgPath+"/e2e_hosttypes", 1), 1)
			for _, tn := range []string{"Pair", "Grid", "Named"} {
				twin = strings.ReplaceAll(twin, "host."+tn, "ht."+tn)
			}
			for _, pk := range []string{"fmt", "io", "sort"} {
				// already imported by the host declarations
				twin = strings.Replace(twin, "\nimport \""+pk+"\"\n", "\n", 1)
			}
			twin = strings.Replace(twin, "func main()", "func Main()", 1)
			// the language version of the reference: the interpreter implements the loop variable
			// semantics of go1.22, the module of the repository declares go 1.21
			twin = "//go:build go1.22\n\n" + twin
			sub := filepath.Join(dir, "e2e_"+name)
			os.MkdirAll(sub, 0o755)
			real := filepath.Join(sub, "prog.go")
			if err := os.WriteFile(real, []byte(twin), 0o644); err != nil {
				return nil, nil, err
			}
			v := filepath.Join(repoDir, p.PkgDir, "e2e_"+name, "prog.go")
			sc.overlay[v] = real
			ov[v] = []byte(twin)
			sc.genPkgs = append(sc.genPkgs, p.PkgPath+"/e2e_"+name)
		}
		glue.WriteString(")\n\n// generated by the runner from harness/" + p.E2EDir + "\n")
		// vhSources: every text a tree is needed for (whole programs and, for piecewise evaluation, chunks)
		glue.WriteString("var vhSources = map[string]string{\n")
		for _, n := range names {
			fmt.Fprintf(&glue, "\t%q: %s,\n", n, strconv.Quote(texts[n]))
		}
		chunkDecl := map[string][][]string{}
		if p.E2EChunks {
			for _, n := range names {
				schemes, err := e2eChunkSchemes(texts[n])
				if err != nil {
					return nil, nil, fmt.Errorf("%s: %v", n, err)
				}
				schemes = append(schemes, e2eHistory(filepath.Join(verifDir, "harness", p.E2EDir, n+".hist.txt")))
				chunkDecl[n] = schemes
				for si, sch := range schemes {
					for ci, c := range sch {
						fmt.Fprintf(&glue, "\t%q: %s,\n", fmt.Sprintf("%s#%d#%d", n, si, ci), strconv.Quote(c))
					}
				}
			}
		}
		glue.WriteString("}\n\n// vhChunks: for each program, the ways of cutting it into a sequence of Eval calls\nvar vhChunks = map[string][][]string{\n")
		for _, n := range names {
			if len(chunkDecl[n]) == 0 {
				continue
			}
			fmt.Fprintf(&glue, "\t%q: {\n", n)
			for _, sch := range chunkDecl[n] {
				glue.WriteString("\t\t{")
				for _, c := range sch {
					glue.WriteString(strconv.Quote(c) + ", ")
				}
				glue.WriteString("},\n")
			}
			glue.WriteString("\t},\n")
		}
		glue.WriteString("}\n\nvar vhPrograms = map[string]string{\n")
		for _, n := range names {
			fmt.Fprintf(&glue, "\t%q: %s,\n", n, strconv.Quote(texts[n]))
		}
		glue.WriteString("}\n\nvar vhTwinBind = map[string]func(map[string]interface{}){\n")
		for _, n := range names {
			fmt.Fprintf(&glue, "\t%q: e2e_%s.Bind,\n", n, n)
		}
		// what each program exports (functions over ints, int variables): used natively by the harness
		// on both sides after the program has run (values obtained from the interpreter by Symbols)
		glue.WriteString("}\n\nvar vhTwinExports = map[string]map[string]interface{}{\n")
		for _, n := range names {
			ex := e2eExports(texts[n])
			if len(ex) == 0 {
				continue
			}
			fmt.Fprintf(&glue, "\t%q: {", n)
			for _, e := range ex {
				if e.isVar {
					fmt.Fprintf(&glue, "%q: &e2e_%s.%s, ", e.name, n, e.name)
				} else {
					fmt.Fprintf(&glue, "%q: e2e_%s.%s, ", e.name, n, e.name)
				}
			}
			glue.WriteString("},\n")
		}
		glue.WriteString("}\n\nvar vhTwinMain = map[string]func(){\n")
		for _, n := range names {
			fmt.Fprintf(&glue, "\t%q: e2e_%s.Main,\n", n, n)
		}
		glue.WriteString("}\n")
		if err := add("zz_verif_e2e_gen.go", []byte(glue.String())); err != nil {
			return nil, nil, err
		}
	}
	if p.GenAST {
		// placeholder, replaced by genAST once the native front end has produced the trees
		if err := add("zz_verif_astgen.go", []byte("package "+p.PkgName+"\n\nfunc vhBuildAST(i *Interpreter, name string) (string, *node) { return \"\", nil }\n")); err != nil {
			return nil, nil, err
		}
	}
	byFile := map[string][]byte{}
	for _, in := range p.Instrument {
		b, ok := byFile[in.File]
		if !ok {
			var err error
			b, err = os.ReadFile(filepath.Join(repoDir, in.File))
			if err != nil {
				return nil, nil, err
			}
		}
		if bytes.Count(b, []byte(in.Old)) != 1 {
			return nil, nil, fmt.Errorf("instrumentation anchor not found exactly once in %s: %q", in.File, in.Old)
		}
		byFile[in.File] = bytes.Replace(b, []byte(in.Old), []byte(in.New), 1)
	}
	for f, b := range byFile {
		real := filepath.Join(dir, "instr_"+strings.ReplaceAll(f, "/", "_"))
		if err := os.WriteFile(real, b, 0o644); err != nil {
			return nil, nil, err
		}
		v := filepath.Join(repoDir, f)
		sc.overlay[v] = real
		ov[v] = b
	}
	if withTests {
		rt, err := os.ReadFile(filepath.Join(verifDir, "harness", "replay_test.go.txt"))
		if err != nil {
			return nil, nil, err
		}
		rt = bytes.Replace(rt, []byte("package PKG"), []byte("package "+p.PkgName), 1)
		real := filepath.Join(dir, "zz_verif_replay_test.go")
		os.WriteFile(real, rt, 0o644)
		sc.overlay[filepath.Join(repoDir, p.PkgDir, "zz_verif_replay_test.go")] = real
		for _, tf := range p.TestFiles {
			b, err := os.ReadFile(filepath.Join(verifDir, "harness", tf))
			if err != nil {
				return nil, nil, err
			}
			vn := "zz_verif_" + strings.ToLower(strings.TrimSuffix(tf, ".go.txt")) + "_test.go"
			real := filepath.Join(dir, vn)
			os.WriteFile(real, b, 0o644)
			sc.overlay[filepath.Join(repoDir, p.PkgDir, vn)] = real
		}
	}
	return sc, ov, nil
}

func (sc *scratch) cleanup() { os.RemoveAll(sc.dir) }

// genAST runs the native dump test and replaces the placeholder builder file.
func (sc *scratch) genAST(p *Prop, ov map[string][]byte) error {
	out, err := sc.goTest(p, "^TestVerifDumpAST$", nil, false, 10*time.Minute)
	b := strings.Index(out, "//VAST-BEGIN\n")
	e := strings.Index(out, "//VAST-END")
	if b < 0 || e < b {
		return fmt.Errorf("the native front end produced no trees (%v): %s", err, tail(out, 6))
	}
	src := []byte(out[b+len("//VAST-BEGIN\n") : e])
	real := filepath.Join(sc.dir, "zz_verif_astgen.go")
	if err := os.WriteFile(real, src, 0o644); err != nil {
		return err
	}
	ov[filepath.Join(repoDir, p.PkgDir, "zz_verif_astgen.go")] = src
	return nil
}

func goEnv() []string {
	return append(os.Environ(), "GOFLAGS=-mod=mod", "GOPROXY=off", "GOSUMDB=off", "GOTOOLCHAIN=local")
}

// goTest runs go test with the overlay in the property's package directory.
func (sc *scratch) goTest(p *Prop, run string, env []string, race bool, timeout time.Duration) (string, error) {
	ovj, _ := json.Marshal(map[string]interface{}{"Replace": sc.overlay})
	ovf := filepath.Join(sc.dir, "overlay.json")
	os.WriteFile(ovf, ovj, 0o644)
	args := []string{"test", "-vet=off", "-count=1", "-v", "-overlay", ovf, "-run", run, "-timeout", fmt.Sprint(timeout)}
	if race {
		args = append(args, "-race")
	}
	args = append(args, "./"+p.PkgDir)
	cmd := exec.Command("go", args...)
	cmd.Dir = repoDir
	cmd.Env = append(goEnv(), env...)
	var out bytes.Buffer
	cmd.Stdout = &out
	cmd.Stderr = &out
	err := cmd.Run()
	return out.String(), err
}

// replayCase is what gets written to /verif/replays and fed to the native test.
type replayCase struct {
	Property   string            `json:"property"`
	Obligation string            `json:"obligation"`
	Finding    string            `json:"finding,omitempty"`
	Harness    string            `json:"harness"`
	Globals    map[string]int    `json:"globals,omitempty"`
	Model      map[string]string `json:"model"`
}

type replayResult struct {
	Failures []string `json:"failures"`
	Assume   bool     `json:"assume_failed"`
	Panic    string   `json:"panic"`
	Note     string   `json:"note"`
}

var replayLine = regexp.MustCompile(`(?m)^VREPLAY (\d+) (.*)$`)
var replayEnter = regexp.MustCompile(`(?m)^VREPLAY-ENTER (\d+)$`)

func (sc *scratch) replay(p *Prop, cases []replayCase) ([]replayResult, string, error) {
	if len(cases) == 0 {
		return nil, "", nil
	}
	cf := filepath.Join(sc.dir, "cases.json")
	b, _ := json.Marshal(cases)
	os.WriteFile(cf, b, 0o644)
	res := make([]replayResult, len(cases))
	found := 0
	var out string
	var err error
	for from := 0; from < len(cases); {
		var o string
		o, err = sc.goTest(p, "^TestVerifReplay$", []string{"VERIF_REPLAY_FILE=" + cf, "VERIF_REPLAY_FROM=" + strconv.Itoa(from)}, p.ReplayRace, 10*time.Minute)
		out += o
		got := map[int]bool{}
		for _, m := range replayLine.FindAllStringSubmatch(o, -1) {
			i, _ := strconv.Atoi(m[1])
			if i < len(res) && !got[i] {
				json.Unmarshal([]byte(m[2]), &res[i])
				got[i] = true
				found++
			}
		}
		// a case that was entered but never reported: the process ended inside the harness
		dead := -1
		for _, m := range replayEnter.FindAllStringSubmatch(o, -1) {
			i, _ := strconv.Atoi(m[1])
			if i < len(res) && !got[i] {
				dead = i
			}
		}
		if dead < 0 || err == nil {
			break
		}
		res[dead].Panic = "the native process ended inside the harness (test binary exited without reporting a result)"
		res[dead].Note = "process exit"
		if strings.HasSuffix(cases[dead].Obligation, ".no-host-exit") {
			// for these obligations the end of the host process is the violation itself
			res[dead].Failures = []string{cases[dead].Obligation}
		}
		found++
		from = dead + 1
	}
	if p.ReplayRace && strings.Contains(out, "WARNING: DATA RACE") {
		for i := range res {
			if strings.Contains(cases[i].Obligation, ".readonly.") {
				res[i].Failures = append(res[i].Failures, cases[i].Obligation)
				res[i].Note = "race detector: DATA RACE while two goroutines execute the statement"
			}
		}
	}
	if found != len(cases) {
		return res, out, fmt.Errorf("replay produced %d of %d results (go test: %v)", found, len(cases), err)
	}
	return res, out, nil
}

type obligResult struct {
	O    Oblig
	E    *sym.Engine
	Err  string
	Wall time.Duration
}

type sampleRec struct {
	Obligation        string            `json:"obligation"`
	Harness           string            `json:"harness"`
	Verdict           string            `json:"verdict"`
	Paths             int               `json:"paths"`
	Queries           int               `json:"queries"`
	PathQueriesProved int               `json:"assert_queries_unsat"`
	Solver            string            `json:"solver"`
	SolverS           float64           `json:"solver_time_s"`
	Bounds            string            `json:"bounds,omitempty"`
	Model             map[string]string `json:"counterexample,omitempty"`
}

func runCheck(id, tier string) int {
	t0 := time.Now()
	p := props[id]
	if p == nil {
		fmt.Fprintln(os.Stderr, "no such property check:", id)
		return 2
	}
	seed := 0
	if s := os.Getenv("VERIF_SEED"); s != "" {
		seed, _ = strconv.Atoi(s)
	}
	evPath := filepath.Join(verifDir, "evidence", id+".json")
	os.MkdirAll(filepath.Dir(evPath), 0o755)
	os.Remove(evPath)

	if p.Custom != nil {
		return p.Custom(p, tier, seed, evPath)
	}
	sc, ov, err := newScratch(p, true)
	if err != nil {
		fmt.Println("INCONCLUSIVE: cannot prepare the harness overlay:", err)
		writeEvidence(evPath, id, tier, seed, time.Since(t0), nil, nil, 0, []string{"overlay: " + err.Error()}, 0, p)
		return 0
	}
	defer sc.cleanup()

	// native validation runs concurrently with the symbolic work
	type valRes struct {
		n   int
		out string
		err error
	}
	valCh := make(chan valRes, 1)
	go func() {
		if p.ValidateRun == "" {
			valCh <- valRes{}
			return
		}
		out, err := sc.goTest(p, p.ValidateRun, []string{"VERIF_SEED=" + strconv.Itoa(seed), "VERIF_TIER=" + tier}, false, 20*time.Minute)
		n := 0
		for _, m := range regexp.MustCompile(`(?m)^VVALIDATED (\d+)`).FindAllStringSubmatch(out, -1) {
			k, _ := strconv.Atoi(m[1])
			n += k
		}
		valCh <- valRes{n, out, err}
	}()

	if p.GenAST {
		if err := sc.genAST(p, ov); err != nil {
			fmt.Println("INCONCLUSIVE: cannot obtain the program trees from the native front end:", err)
			writeEvidence(evPath, id, tier, seed, time.Since(t0), nil, nil, 0, []string{"ast generation: " + err.Error()}, 0, p)
			return 0
		}
	}
	prog, err := sym.Load(repoDir, []string{"./" + p.PkgDir}, ov, []string{p.PkgPath}, nil)
	if err != nil {
		fmt.Println("INCONCLUSIVE: cannot load/build SSA for", p.PkgPath, "with harness overlay:")
		fmt.Println(err)
		// a harness that no longer type-checks against the tree (renamed anchor) decides nothing
		writeEvidence(evPath, id, tier, seed, time.Since(t0), nil, nil, 0, []string{"load failed: " + firstLine(err.Error())}, 0, p)
		return 0
	}
	base, err := sym.NewEngine(prog, "z3", 10000)
	if err != nil {
		fmt.Fprintln(os.Stderr, "solver:", err)
		return 2
	}
	defer base.Close()
	for _, ip := range p.InlinePkgs {
		base.InlinePkgs[ip] = true
	}
	for _, ip := range sc.genPkgs {
		base.InlinePkgs[ip] = true
	}
	if p.Setup != nil {
		p.Setup(base)
	}
	for from, to := range p.Redirects {
		f := prog.Func(p.PkgPath, to)
		if f == nil {
			fmt.Fprintln(os.Stderr, "redirect target missing:", to)
			return 2
		}
		base.Redirect[from] = f
	}
	if err := base.RunInit(p.PkgPath); err != nil {
		fmt.Println("INCONCLUSIVE: package initialiser could not be executed:", err)
		writeEvidence(evPath, id, tier, seed, time.Since(t0), nil, nil, 0, []string{err.Error()}, 0, p)
		return 0
	}
	for dep, files := range p.InitFiles {
		if err := base.RunInitFiles(dep, files); err != nil {
			fmt.Println("INCONCLUSIVE: initialiser of", dep, "could not be executed:", err)
			writeEvidence(evPath, id, tier, seed, time.Since(t0), nil, nil, 0, []string{err.Error()}, 0, p)
			return 0
		}
	}
	kf := loadKnownFindings()
	for _, k := range kf {
		if k.Property == id && k.Status == "open" {
			base.OpenFindings[k.Finding] = true
		}
	}

	var baseBV *sym.Engine
	needBV := p.ObserveBV
	for _, o := range p.Obligs(tier) {
		if o.BVMode {
			needBV = true
		}
	}
	if needBV {
		baseBV, err = base.Fork(98, "z3", 10000)
		if err == nil {
			err = baseBV.ReinitBV(p.PkgPath)
		}
		if err != nil {
			fmt.Println("INCONCLUSIVE: cannot initialise the bit-vector encoding:", err)
			writeEvidence(evPath, id, tier, seed, time.Since(t0), nil, nil, 0, []string{err.Error()}, 0, p)
			return 0
		}
		defer baseBV.Close()
		for k := range base.OpenFindings {
			baseBV.OpenFindings[k] = true
		}
	}
	obsOK, obsN, obsMsg := runObservations(sc, base, baseBV, prog, p)
	obligs := p.Obligs(tier)
	if only := os.Getenv("VERIF_ONLY"); only != "" {
		var sel []Oblig
		for _, o := range obligs {
			if strings.Contains(o.Harness, only) {
				sel = append(sel, o)
			}
		}
		obligs = sel
	}
	if idx := os.Getenv("VERIF_IDX"); idx != "" {
		k, _ := strconv.Atoi(idx)
		if k < len(obligs) {
			obligs = obligs[k : k+1]
		}
	}
	results := make([]*obligResult, len(obligs))
	var wg sync.WaitGroup
	sem := make(chan struct{}, 14)
	for i := range obligs {
		wg.Add(1)
		go func(i int) {
			defer wg.Done()
			sem <- struct{}{}
			defer func() { <-sem }()
			b := base
			if obligs[i].BVMode {
				b = baseBV
			}
			results[i] = runOblig(b, prog, p, obligs[i], i+1, tier)
		}(i)
	}
	wg.Wait()

	// gather violations, one replay case per (obligation id, finding)
	var cases []replayCase
	type vref struct {
		v *sym.Violation
		r *obligResult
	}
	var refs []vref
	seenN := map[string]int{}
	for _, r := range results {
		if r.E == nil {
			continue
		}
		for _, v := range r.E.Violations {
			if os.Getenv("VERIF_ALLVIOL") != "" {
				fmt.Printf("  cex %s [%s] %s %s\n", v.ID, v.Finding, boundsStr(r.O), modelStr(v.Model))
			}
			k := v.ID + "|" + v.Finding
			// replay up to 6 counterexamples per obligation (at most 2 per shape)
			if seenN[k] >= 6 || seenN[k+"|"+boundsStr(r.O)] >= 2 {
				continue
			}
			seenN[k]++
			seenN[k+"|"+boundsStr(r.O)]++
			cases = append(cases, replayCase{Property: id, Obligation: v.ID, Finding: v.Finding, Harness: r.O.Harness, Globals: r.O.Globals, Model: v.Model})
			refs = append(refs, vref{v, r})
		}
	}
	rres, rout, rerr := sc.replay(p, cases)
	if rerr != nil {
		fmt.Println("INCONCLUSIVE: native replay failed:", rerr)
		fmt.Println(tail(rout, 40))
	}
	os.RemoveAll(filepath.Join(verifDir, "replays", id))
	os.MkdirAll(filepath.Join(verifDir, "replays", id), 0o755)

	exit := 0
	var inconclusive []string
	nViol := 0
	var knownSeen []string
	vsamples := map[string]map[string]string{}
	nameCount := map[string]int{}
	reported := map[string]bool{}
	for i, c := range cases {
		name := c.Obligation
		if c.Finding != "" {
			name += "." + c.Finding
		}
		nameCount[name]++
		suffix := ""
		if nameCount[name] > 1 {
			suffix = fmt.Sprintf(".%d", nameCount[name])
		}
		path := filepath.Join(verifDir, "replays", id, sanitize(name)+suffix+".json")
		b, _ := json.MarshalIndent(c, "", " ")
		os.WriteFile(path, b, 0o644)
		reproduced := false
		detail := ""
		if rerr == nil {
			rr := rres[i]
			for _, f := range rr.Failures {
				if f == c.Obligation {
					reproduced = true
				}
			}
			if rr.Panic != "" && strings.HasSuffix(c.Obligation, ".uncaught-panic") {
				reproduced = true
			}
			if strings.HasSuffix(c.Obligation, ".deadlock") && (strings.HasPrefix(rr.Panic, "timeout:") || rr.Note == "process exit" || len(rr.Failures) > 0) {
				// natively a deadlocked run does not terminate (or the runtime kills it)
				reproduced = true
			}
			detail = fmt.Sprintf("native: failures=%v assume_failed=%v panic=%q %s", rr.Failures, rr.Assume, rr.Panic, rr.Note)
		}
		switch {
		case rerr != nil:
			inconclusive = append(inconclusive, name+": counterexample found but replay could not run")
		case reported[name] && reproduced:
			// a further reproduced counterexample of an obligation already reported
		case !reproduced:
			fmt.Printf("UNREPRODUCED obligation=%s model=%v (%s)\n", name, c.Model, detail)
			inconclusive = append(inconclusive, name+": solver counterexample did not reproduce natively (encoding or summary defect)")
		case c.Finding != "":
			what := c.Finding
			for _, k := range kf {
				if k.Property == id && k.Finding == c.Finding {
					what = k.Finding + ": " + k.What
				}
			}
			fmt.Printf("KNOWN-FINDING: property=%s %s [obligation %s, e.g. %s]\n", id, what, c.Obligation, modelStr(c.Model))
			knownSeen = append(knownSeen, c.Finding)
			reported[name] = true
		default:
			fmt.Printf("VIOLATION property=%s replay=%s\n", id, path)
			fmt.Printf("  obligation %s fails for %s (%s)\n", c.Obligation, modelStr(c.Model), detail)
			vsamples[c.Obligation] = c.Model
			nViol++
			exit = 1
			reported[name] = true
		}
	}

	// per-obligation report
	var samples []sampleRec
	states, transitions, queries := 0, 0, 0
	var solverT time.Duration
	funcs := map[string]bool{}
	summaries := map[string]bool{}
	stubs := map[string]bool{}
	nObl, nDis := 0, 0
	for _, r := range results {
		if r.E == nil {
			inconclusive = append(inconclusive, r.O.Harness+": "+r.Err)
			continue
		}
		e := r.E
		states += e.Stats.Paths
		transitions += e.Stats.Instrs
		queries += e.Solver.Queries
		solverT += e.Solver.Time
		for _, f := range e.EncodedFunctions() {
			funcs[f] = true
		}
		for _, s := range e.UsedSummaries() {
			summaries[s] = true
		}
		for _, s := range e.OpaqueCalls() {
			stubs[s] = true
		}
		for _, inc := range dedup(e.Inconclusive) {
			inconclusive = append(inconclusive, inc)
		}
		bad := len(e.Inconclusive) > 0
		for _, a := range e.Asserts() {
			nObl++
			verdict := "holds within bounds"
			switch {
			case a.Failed > 0:
				verdict = "counterexample"
			case a.Unknown > 0 || bad:
				verdict = "inconclusive"
			default:
				nDis++
			}
			s := sampleRec{Obligation: a.ID, Harness: r.O.Harness, Verdict: verdict, Paths: e.Stats.Paths, Queries: e.Solver.Queries,
				PathQueriesProved: a.Proved, Solver: e.Solver.Name, SolverS: e.Solver.Time.Seconds(), Bounds: boundsStr(r.O), Model: vsamples[a.ID]}
			samples = append(samples, s)
			if verdict != "holds within bounds" || len(results) <= 60 {
				fmt.Printf("  %-34s %-20s paths=%d asserts(unsat/sat/unk)=%d/%d/%d %.1fs [%s]\n", a.ID, verdict, e.Stats.Paths, a.Proved, a.Failed, a.Unknown, r.Wall.Seconds(), boundsStr(r.O))
			}
		}
		for id2, n := range e.Reached {
			if n == 0 {
				inconclusive = append(inconclusive, id2+": vacuous (assertion point unreachable)")
			}
		}
		if len(e.Asserts()) == 0 {
			inconclusive = append(inconclusive, r.O.Harness+": no assertion reached (vacuous)")
		}
	}
	// cross-check of the encoding on concrete inputs: an obligation set the solver discharged must
	// also pass natively on the sample inputs; a native failure there means the engine or one of its
	// models is more permissive than the real build (nothing is decided by these runs)
	sampleRuns := 0
	// one native process per sample: the compiled twins keep their package-level state, each must run once
	for _, m := range p.SampleModels {
		var scases []replayCase
		for _, r := range results {
			if r.E == nil || len(r.E.Violations) > 0 || len(r.E.Inconclusive) > 0 {
				continue
			}
			scases = append(scases, replayCase{Property: id, Obligation: "sample", Harness: r.O.Harness, Globals: r.O.Globals, Model: m})
		}
		sres, sout, serr := sc.replay(p, scases)
		if serr != nil {
			inconclusive = append(inconclusive, "sample cross-check could not run: "+firstLine(serr.Error())+" "+tail(sout, 3))
		} else {
			for i, rr := range sres {
				sampleRuns++
				if rr.Assume {
					continue
				}
				if len(rr.Failures) > 0 || rr.Panic != "" {
					msg := fmt.Sprintf("%s [%s]: discharged by the solver but fails natively for %s (failures=%v panic=%q): the encoding or a model is more permissive than the real build", scases[i].Harness, boundsStr(Oblig{Globals: scases[i].Globals}), modelStr(scases[i].Model), rr.Failures, rr.Panic)
					fmt.Println("ENCODING-MISMATCH " + msg)
					inconclusive = append(inconclusive, msg)
				}
			}
		}
	}
	vr := <-valCh
	if p.ValidateRun != "" {
		if vr.err != nil {
			fmt.Println("INCONCLUSIVE: native validation of translator/summaries/oracle failed:")
			fmt.Println(tail(vr.out, 60))
			inconclusive = append(inconclusive, "validation: native validation test failed; oracle or summaries disagree with the real library")
			// a failing validation means the machinery cannot be trusted: report nothing as violation
		} else {
			fmt.Printf("  validated %d vectors natively (summaries, oracle restatement, translator)\n", vr.n)
		}
	}
	if len(p.ObserveHarness) > 0 {
		if !obsOK {
			fmt.Println("INCONCLUSIVE: translator validation failed:", obsMsg)
			inconclusive = append(inconclusive, "translator validation: the engine and the native build disagree on concrete vectors: "+obsMsg)
		} else {
			fmt.Printf("  translator validated: %d observations on concrete vectors agree between the engine and the native build\n", obsN)
			vr.n += obsN
		}
	}
	inconclusive = dedup(inconclusive)
	for _, inc := range inconclusive {
		fmt.Println("INCONCLUSIVE:", inc)
	}
	cov := map[string]interface{}{
		"states":                        maxInt(states, 1),
		"transitions":                   maxInt(transitions, 1),
		"traces_validated_against_impl": vr.n + sampleRuns,
		"samples":                       samplesOrPlaceholder(samples),
		"obligations":                   nObl,
		"discharged":                    nDis,
		"queries":                       queries,
		"solver_time_s":                 solverT.Seconds(),
		"functions_encoded":             keys(funcs),
		"summaries_used":                keys(summaries),
		"stubs":                         append(keys(stubs), p.Stubs...),
		"bounds":                        p.Bounds,
		"outside":                       p.Outside,
		"inconclusive":                  inconclusive,
		"known_findings_seen":           knownSeen,
		"source_hash":                   prog.SourceHash(),
		"ssa_load_s":                    prog.LoadTime.Seconds(),
		"technique":                     "symbolic execution of go/ssa + SMT (z3), counterexamples replayed natively",
	}
	writeEvidenceCov(evPath, id, tier, seed, time.Since(t0), cov, p.Assumptions, nViol)
	fmt.Printf("%s %s: obligations=%d discharged=%d violations=%d known=%d inconclusive=%d paths=%d queries=%d solver=%.1fs wall=%.1fs\n",
		id, tier, nObl, nDis, nViol, len(knownSeen), len(inconclusive), states, queries, solverT.Seconds(), time.Since(t0).Seconds())
	return exit
}

func runOblig(base *sym.Engine, prog *sym.Program, p *Prop, o Oblig, worker int, tier string) *obligResult {
	t0 := time.Now()
	r := &obligResult{O: o}
	solver := o.Solver
	if solver == "" {
		solver = p.Solver
	}
	e, err := base.Fork(worker, solver, o.TimeoutMs)
	if err != nil {
		r.Err = err.Error()
		return r
	}
	defer e.Close()
	if o.Unroll > 0 {
		e.MaxUnroll = o.Unroll
	}
	if o.MaxPaths > 0 {
		e.MaxPaths = o.MaxPaths
	}
	if o.FP32As != 0 {
		e.FP32As = o.FP32As
	}
	if o.Setup != nil {
		o.Setup(e)
	}
	if o.NoRedirect {
		for k := range e.Redirect {
			delete(e.Redirect, k)
		}
	}
	if len(o.KeepRedirects) > 0 {
		keep := map[string]bool{}
		for _, k := range o.KeepRedirects {
			keep[k] = true
		}
		for k, f := range e.Redirect {
			if !keep[f.Name()] {
				delete(e.Redirect, k)
			}
		}
	}
	for _, d := range o.DropRedirects {
		for k, f := range e.Redirect {
			if f.Name() == d {
				delete(e.Redirect, k)
			}
		}
	}
	budget := 5 * time.Minute
	if tier == "thorough" {
		budget = 40 * time.Minute
	}
	if o.Budget > 0 {
		budget = o.Budget
	}
	e.Deadline = time.Now().Add(budget)
	if os.Getenv("VERIF_TRACE") != "" {
		e.Trace = true
	}
	if d := os.Getenv("VERIF_SMTLOG"); d != "" {
		f, _ := os.Create(filepath.Join(d, fmt.Sprintf("%s.%d.smt2", o.Harness, worker)))
		e.Solver.Log = f
	}
	fn := prog.Func(p.PkgPath, o.Harness)
	if fn == nil {
		r.Err = "harness function missing"
		return r
	}
	for g, v := range o.Globals {
		if err := e.SetGlobalInt(p.PkgPath, g, v); err != nil {
			r.Err = err.Error()
			return r
		}
	}
	func() {
		defer func() {
			if x := recover(); x != nil {
				r.Err = fmt.Sprintf("engine failure: %v", x)
				if os.Getenv("VERIF_TRACE") != "" {
					fmt.Fprintf(os.Stderr, "%s\n", debug.Stack())
				}
				e.Inconclusive = append(e.Inconclusive, o.Harness+": engine failure: "+fmt.Sprint(x))
			}
		}()
		e.Explore(fn, nil)
	}()
	r.E = e
	r.Wall = time.Since(t0)
	return r
}

// runObservations pushes concrete vectors through the native build and
// through the encoding and compares what both observe.
func runObservations(sc *scratch, base, baseBV *sym.Engine, prog *sym.Program, p *Prop) (bool, int, string) {
	if len(p.ObserveHarness) == 0 {
		return true, 0, ""
	}
	out, err := sc.goTest(p, "^TestVerifObserve$", []string{"VERIF_OBSERVE=" + strings.Join(p.ObserveHarness, ",")}, false, 10*time.Minute)
	if err != nil {
		return false, 0, "native observation run failed: " + tail(out, 15)
	}
	var native []string
	for _, m := range regexp.MustCompile(`(?m)^VOBS (.*)$`).FindAllStringSubmatch(out, -1) {
		native = append(native, m[1])
	}
	modes := []bool{false}
	if p.ObserveBV {
		modes = append(modes, true)
	}
	total := 0
	for _, bv := range modes {
		b := base
		if bv {
			b = baseBV
		}
		ok, n, msg := runObservationsMode(b, prog, p, native, bv)
		if !ok {
			return false, 0, fmt.Sprintf("(bit-vector encoding=%v) %s", bv, msg)
		}
		total += n
	}
	return true, total, ""
}

func runObservationsMode(base *sym.Engine, prog *sym.Program, p *Prop, native []string, bv bool) (bool, int, string) {
	e, err := base.Fork(99, "z3", 10000)
	if err != nil {
		return false, 0, err.Error()
	}
	defer e.Close()
	e.MaxSteps = 200000000
	for _, h := range p.ObserveHarness {
		fn := prog.Func(p.PkgPath, h)
		if fn == nil {
			return false, 0, "observation harness missing: " + h
		}
		var failure string
		func() {
			defer func() {
				if x := recover(); x != nil {
					failure = fmt.Sprint(x)
					if os.Getenv("VERIF_TRACE") != "" {
						fmt.Fprintf(os.Stderr, "%s\n", debug.Stack())
					}
				}
			}()
			e.Explore(fn, nil)
		}()
		if failure != "" {
			return false, 0, "engine failure in " + h + ": " + failure
		}
		if len(e.Inconclusive) > 0 {
			return false, 0, "engine could not run " + h + ": " + e.Inconclusive[0]
		}
	}
	if len(native) != len(e.Observations) {
		return false, 0, fmt.Sprintf("%d native observations, %d from the engine", len(native), len(e.Observations))
	}
	for i := range native {
		if native[i] != e.Observations[i] {
			return false, 0, fmt.Sprintf("observation %d: native %q, engine %q", i, native[i], e.Observations[i])
		}
	}
	return true, len(native), ""
}

func runReplayCmd(path string) int {
	b, err := os.ReadFile(path)
	if err != nil {
		fmt.Fprintln(os.Stderr, err)
		return 2
	}
	var c replayCase
	if err := json.Unmarshal(b, &c); err != nil {
		fmt.Fprintln(os.Stderr, err)
		return 2
	}
	p := props[c.Property]
	if p == nil {
		fmt.Fprintln(os.Stderr, "unknown property", c.Property)
		return 2
	}
	if c.Property == "C14" {
		return replayC14(p, path, b)
	}
	sc, _, err := newScratch(p, true)
	if err != nil {
		fmt.Fprintln(os.Stderr, err)
		return 2
	}
	defer sc.cleanup()
	res, out, err := sc.replay(p, []replayCase{c})
	if err != nil {
		fmt.Println(out)
		fmt.Fprintln(os.Stderr, err)
		return 2
	}
	fmt.Printf("replay of %s against the real build: failures=%v assume_failed=%v panic=%q %s\n", c.Obligation, res[0].Failures, res[0].Assume, res[0].Panic, res[0].Note)
	for _, f := range res[0].Failures {
		if f == c.Obligation {
			fmt.Printf("VIOLATION property=%s replay=%s\n", c.Property, path)
			return 1
		}
	}
	return 0
}

// ---- helpers ----

func writeEvidence(path, id, tier string, seed int, wall time.Duration, samples []sampleRec, _ interface{}, validated int, inconclusive []string, viol int, p *Prop) {
	cov := map[string]interface{}{
		"states": 1, "transitions": 1, "traces_validated_against_impl": validated,
		"samples":      samplesOrPlaceholder(samples),
		"inconclusive": inconclusive, "obligations": 0, "discharged": 0,
	}
	writeEvidenceCov(path, id, tier, seed, wall, cov, p.Assumptions, viol)
}

func writeEvidenceCov(path, id, tier string, seed int, wall time.Duration, cov map[string]interface{}, assumptions []string, viol int) {
	ev := map[string]interface{}{
		"property_id": id, "tier": tier, "seed": seed, "level": "model_checking",
		"coverage": cov, "assumptions": assumptions, "wall_s": wall.Seconds(), "violations": viol,
	}
	if assumptions == nil {
		ev["assumptions"] = []string{}
	}
	b, _ := json.MarshalIndent(ev, "", " ")
	os.WriteFile(path, b, 0o644)
}

func samplesOrPlaceholder(s []sampleRec) interface{} {
	if len(s) == 0 {
		return []interface{}{map[string]string{"note": "no obligation could be explored in this run (see inconclusive)"}}
	}
	return s
}

func boundsStr(o Oblig) string {
	var parts []string
	var ks []string
	for k := range o.Globals {
		ks = append(ks, k)
	}
	sort.Strings(ks)
	for _, k := range ks {
		parts = append(parts, fmt.Sprintf("%s=%d", k, o.Globals[k]))
	}
	if o.Unroll > 0 {
		parts = append(parts, fmt.Sprintf("unroll=%d", o.Unroll))
	}
	if o.BVMode {
		parts = append(parts, "ints=bitvectors")
	} else {
		parts = append(parts, "ints=Int+wrap")
	}
	if o.Note != "" {
		parts = append(parts, o.Note)
	}
	return strings.Join(parts, " ")
}

func modelStr(m map[string]string) string {
	var ks []string
	for k := range m {
		ks = append(ks, k)
	}
	sort.Strings(ks)
	var parts []string
	for _, k := range ks {
		parts = append(parts, fmt.Sprintf("%s=%q", k, m[k]))
	}
	return strings.Join(parts, " ")
}

func sanitize(s string) string {
	return strings.Map(func(r rune) rune {
		if r >= 'a' && r <= 'z' || r >= 'A' && r <= 'Z' || r >= '0' && r <= '9' || r == '.' || r == '-' || r == '_' {
			return r
		}
		return '_'
	}, s)
}

func keys(m map[string]bool) []string {
	r := []string{}
	for k := range m {
		r = append(r, k)
	}
	sort.Strings(r)
	return r
}

func dedup(in []string) []string {
	seen := map[string]bool{}
	var out []string
	for _, s := range in {
		if !seen[s] {
			seen[s] = true
			out = append(out, s)
		}
	}
	return out
}

func maxInt(a, b int) int {
	if a > b {
		return a
	}
	return b
}

func firstLine(s string) string {
	if i := strings.IndexByte(s, '\n'); i >= 0 {
		return s[:i]
	}
	return s
}

func tail(s string, n int) string {
	l := strings.Split(s, "\n")
	if len(l) > n {
		l = l[len(l)-n:]
	}
	return strings.Join(l, "\n")
}

// e2eHostDecl replaces the import of the host package in the compiled twin of an end-to-end
// program: the same functions as the table the harness gives the interpreter (harness/E2E.go vhHost).
const e2eHostDecl = `import (
	"fmt"
	"io"
	"sort"

	ht "HOSTTYPES"
)

var _ ht.Pair

var host struct {
	A, B  func() int
	Out   func(int)
	Str   func(fmt.Stringer)
	Err   func(error)
	Sort  func(sort.Interface)
	Read  func(io.Reader)
	Write func(io.Writer)
	Copy  func(io.Reader)
	Show  func(...interface{})
	Shape func(interface{}) int
	Join  func(...fmt.Stringer)

	// values of every shape crossing the boundary (property C07)
	Swap      func(ht.Pair) ht.Pair
	Scale     func(*ht.Pair, int)
	NewPair   func(int, int) *ht.Pair
	SumGrid   func(ht.Grid) int
	FillGrid  func(*ht.Grid, int)
	SumSlice  func([]int) int
	Double    func([]int)
	Grow      func([]int, int) []int
	SumMap    func(map[string]int) int
	SetKey    func(map[string]int, string, int)
	Var       func(int, ...int) int
	ScaleAll  func(int, ...int)
	VarShape  func(...int) int
	DivMod    func(int, int) (int, int, error)
	Apply     func(func(int) int, int) int
	Compose   func(func(int) int, func(int) int) func(int) int
	MakeAdder func(int) func(int) int
	Kinds     func(bool, int8, uint16, string, rune) (int8, uint16, string)
	SumPairs  func([]ht.Pair) ht.Pair
	Each      func(map[string]ht.Pair, func(string, ht.Pair))
	Rename    func(ht.Named) ht.Named
	Visit     func(func(ht.Pair) (int, error)) int
	IsPos     func(int) bool
	Two       func(int) (int, int)
	Add       func(int, int) int
	Sub       func(int, int) int
	Repeat    func(func(int) int, int) int
}

// Bind connects the program to its inputs and outputs.
func Bind(h map[string]interface{}) {
	host.A, host.B = h["A"].(func() int), h["B"].(func() int)
	host.Out = h["Out"].(func(int))
	host.Str = h["Str"].(func(fmt.Stringer))
	host.Err = h["Err"].(func(error))
	host.Sort = h["Sort"].(func(sort.Interface))
	host.Read = h["Read"].(func(io.Reader))
	host.Write = h["Write"].(func(io.Writer))
	host.Copy = h["Copy"].(func(io.Reader))
	host.Show = h["Show"].(func(...interface{}))
	host.Shape = h["Shape"].(func(interface{}) int)
	host.Join = h["Join"].(func(...fmt.Stringer))
	host.Swap = h["Swap"].(func(ht.Pair) ht.Pair)
	host.Scale = h["Scale"].(func(*ht.Pair, int))
	host.NewPair = h["NewPair"].(func(int, int) *ht.Pair)
	host.SumGrid = h["SumGrid"].(func(ht.Grid) int)
	host.FillGrid = h["FillGrid"].(func(*ht.Grid, int))
	host.SumSlice = h["SumSlice"].(func([]int) int)
	host.Double = h["Double"].(func([]int))
	host.Grow = h["Grow"].(func([]int, int) []int)
	host.SumMap = h["SumMap"].(func(map[string]int) int)
	host.SetKey = h["SetKey"].(func(map[string]int, string, int))
	host.Var = h["Var"].(func(int, ...int) int)
	host.ScaleAll = h["ScaleAll"].(func(int, ...int))
	host.VarShape = h["VarShape"].(func(...int) int)
	host.DivMod = h["DivMod"].(func(int, int) (int, int, error))
	host.Apply = h["Apply"].(func(func(int) int, int) int)
	host.Compose = h["Compose"].(func(func(int) int, func(int) int) func(int) int)
	host.MakeAdder = h["MakeAdder"].(func(int) func(int) int)
	host.Kinds = h["Kinds"].(func(bool, int8, uint16, string, rune) (int8, uint16, string))
	host.SumPairs = h["SumPairs"].(func([]ht.Pair) ht.Pair)
	host.Each = h["Each"].(func(map[string]ht.Pair, func(string, ht.Pair)))
	host.Rename = h["Rename"].(func(ht.Named) ht.Named)
	host.Visit = h["Visit"].(func(func(ht.Pair) (int, error)) int)
	host.IsPos = h["IsPos"].(func(int) bool)
	host.Two = h["Two"].(func(int) (int, int))
	host.Add = h["Add"].(func(int, int) int)
	host.Sub = h["Sub"].(func(int, int) int)
	host.Repeat = h["Repeat"].(func(func(int) int, int) int)
}`

// e2eChunkSchemes cuts a program text into sequences of chunks for successive Eval calls:
// scheme 0: one chunk per top-level declaration; then, when the body of main is a plain
// sequence of statements, "the declarations, then each statement of main on its own"
// (interactive style, no func main); then every cut of the declarations into two chunks.
// The package clause and the imports go with the first chunk.
func e2eChunkSchemes(src string) ([][]string, error) {
	fset := token.NewFileSet()
	f, err := parser.ParseFile(fset, "p.go", src, 0)
	if err != nil {
		return nil, err
	}
	off := func(p token.Pos) int { return fset.Position(p).Offset }
	var decls []string
	head := ""
	var mainFn *ast.FuncDecl
	for k, d := range f.Decls {
		if k == 0 {
			head = src[:off(d.Pos())]
		}
		decls = append(decls, src[off(d.Pos()):off(d.End())])
		if fd, ok := d.(*ast.FuncDecl); ok && fd.Recv == nil && fd.Name.Name == "main" {
			mainFn = fd
		}
	}
	if len(decls) < 2 {
		return nil, nil
	}
	var schemes [][]string
	one := []string{}
	for k, d := range decls {
		if k == 0 {
			d = head + d
		}
		one = append(one, d)
	}
	schemes = append(schemes, one)
	// the statements of main as loose statements
	if mainFn != nil && mainFn.Body != nil && len(mainFn.Body.List) > 1 {
		plain := true
		for _, st := range mainFn.Body.List {
			switch st.(type) {
			case *ast.DeferStmt, *ast.ReturnStmt, *ast.LabeledStmt, *ast.BranchStmt, *ast.GoStmt:
				plain = false
			}
		}
		ast.Inspect(mainFn.Body, func(n ast.Node) bool {
			switch x := n.(type) {
			case *ast.FuncLit:
				return false
			case *ast.ReturnStmt:
				plain = false
			case *ast.BranchStmt:
				if x.Tok == token.GOTO {
					plain = false
				}
			}
			return true
		})
		if plain {
			var rest []string
			for _, d := range f.Decls {
				if d != ast.Decl(mainFn) {
					rest = append(rest, src[off(d.Pos()):off(d.End())])
				}
			}
			sch := []string{head + strings.Join(rest, "\n\n")}
			for _, st := range mainFn.Body.List {
				sch = append(sch, src[off(st.Pos()):off(st.End())])
			}
			schemes = append(schemes, sch)
		} else {
			schemes = append(schemes, nil)
		}
	} else {
		schemes = append(schemes, nil)
	}
	for k := 1; k < len(decls); k++ {
		schemes = append(schemes, []string{head + strings.Join(decls[:k], "\n\n"), strings.Join(decls[k:], "\n\n")})
	}
	return schemes, nil
}

// e2eHistory reads a hand-written sequence of Eval inputs (separated by lines "//---") which is
// claimed equivalent to the program of the same name: an interactive session with redefinitions.
func e2eHistory(path string) []string {
	b, err := os.ReadFile(path)
	if err != nil {
		return nil
	}
	var out []string
	for _, c := range strings.Split(string(b), "\n//---\n") {
		if strings.TrimSpace(c) != "" {
			out = append(out, c)
		}
	}
	return out
}

// e2eHostTypes is the package of the types of package host (overlay <pkg>/e2e_hosttypes).
const e2eHostTypes = `// Package e2e_hosttypes holds the types of the host package of the end-to-end programs.
package e2e_hosttypes

// Pair is a plain struct passed by value and by pointer.
type Pair struct{ A, B int }

// Grid is an array type.
type Grid [2][2]int

// Named is a named basic type.
type Named int
`

type e2eExport struct {
	name  string
	isVar bool
}

// e2eExports lists the exported top-level functions of type func(int) int or func(int, int) int
// and the exported package variables of type int of a program.
func e2eExports(src string) []e2eExport {
	fset := token.NewFileSet()
	f, err := parser.ParseFile(fset, "p.go", src, 0)
	if err != nil {
		return nil
	}
	isInt := func(e ast.Expr) bool { id, ok := e.(*ast.Ident); return ok && id.Name == "int" }
	var out []e2eExport
	for _, d := range f.Decls {
		switch x := d.(type) {
		case *ast.FuncDecl:
			if x.Recv != nil || !x.Name.IsExported() || x.Type.Results == nil || len(x.Type.Results.List) != 1 || !isInt(x.Type.Results.List[0].Type) {
				continue
			}
			n, ok := 0, true
			for _, p := range x.Type.Params.List {
				if !isInt(p.Type) {
					ok = false
				}
				k := len(p.Names)
				if k == 0 {
					k = 1
				}
				n += k
			}
			if ok && (n == 1 || n == 2) {
				out = append(out, e2eExport{name: x.Name.Name})
			}
		case *ast.GenDecl:
			if x.Tok != token.VAR {
				continue
			}
			for _, sp := range x.Specs {
				vs := sp.(*ast.ValueSpec)
				if vs.Type != nil && isInt(vs.Type) {
					for _, id := range vs.Names {
						if id.IsExported() {
							out = append(out, e2eExport{name: id.Name, isVar: true})
						}
					}
				}
			}
		}
	}
	return out
}
