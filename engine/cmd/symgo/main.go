// symgo: solver-based checking of yaegi's real code, from go/ssa.
//
//	symgo check <Cxx> quick|thorough
//	symgo replay <path.json>
package main

import (
	"fmt"
	"os"
)

func main() {
	if len(os.Args) < 2 {
		fmt.Fprintln(os.Stderr, "usage: symgo check <id> <tier> | replay <path>")
		os.Exit(2)
	}
	switch os.Args[1] {
	case "check":
		if len(os.Args) < 4 {
			fmt.Fprintln(os.Stderr, "usage: symgo check <id> quick|thorough")
			os.Exit(2)
		}
		os.Exit(runCheck(os.Args[2], os.Args[3]))
	case "replay":
		os.Exit(runReplayCmd(os.Args[2]))
	default:
		fmt.Fprintln(os.Stderr, "unknown command", os.Args[1])
		os.Exit(2)
	}
}
