package main

func init() {
	props["C02"] = &Prop{
		ID: "C02", PkgDir: "interp", PkgPath: interpPath, PkgName: "interp",
		Harness:        []string{"interp_common.go", "big_common.go", "models_validate.go", "C02.go", "C02f.go"},
		Instrument:     runidInstr,
		ObserveHarness: []string{"vv_models", "vv_arith"},
		ObserveBV:      true,
		Obligs: func(tier string) []Oblig {
			var r []Oblig
			forms := []int{0, 1, 2, 3, 4}
			add := func(op, k, form, cnt int) {
				bv := true
				o := op % 100
				if o == 3 || o == 4 { // quo, rem: integer encoding (bit-vector division does not finish)
					bv = false
				}
				if form >= 3 { // untyped constant operands go through the go/constant model (unbounded Int)
					bv = false
				}
				r = append(r, Oblig{Harness: "vh_C02_int", BVMode: bv, Globals: map[string]int{"vhOp": op, "vhKind": k, "vhForm": form, "vhCntInt": cnt}})
			}
			for _, k := range intKinds {
				for op := 0; op <= 16; op++ { // binary arithmetic, bitwise, shifts, comparisons
					for _, form := range forms {
						if form >= 3 && !(op == 0 || op == 1 || op == 3 || op == 4 || op >= 11) {
							continue // mul/bitwise/shift on a go/constant operand: same closures as the typed-constant forms
						}
						if op == 9 || op == 10 {
							add(op, k, form, 0)
							if form == 0 {
								add(op, k, form, 1)
							}
							continue
						}
						add(op, k, form, 0)
						if op >= 11 && op <= 16 {
							r = append(r, Oblig{Harness: "vh_C02_int", BVMode: form < 3, Globals: map[string]int{"vhOp": op, "vhKind": k, "vhForm": form, "vhCntInt": 0, "vhBranch": 1}})
						}
					}
				}
				for op := 100; op <= 110; op++ { // compound assignment: var op= var, var op= const
					for _, form := range []int{0, 2} {
						add(op, k, form, 0)
					}
				}
				for _, op := range []int{17, 18, 19, 20, 21} { // neg, pos, bitNot, inc, dec
					add(op, k, 0, 0)
				}
			}
			// strings: + and the comparisons, += ; plain and branch contexts
			for _, op := range []int{0, 11, 12, 13, 14, 15, 16, 100} {
				for _, form := range []int{0, 1, 2} {
					if op == 100 && form == 1 {
						continue
					}
					r = append(r, Oblig{Harness: "vh_C02_string", Solver: "cvc5", Globals: map[string]int{"vhOp": op, "vhForm": form, "vhBranch": 0}})
					if op >= 11 && op <= 16 {
						r = append(r, Oblig{Harness: "vh_C02_string", Solver: "cvc5", Globals: map[string]int{"vhOp": op, "vhForm": form, "vhBranch": 1}})
					}
				}
			}
			// floats: float64 all operators; float32 comparisons, neg, and (thorough) + - via the double-rounding query
			for _, k := range []int{13, 14} {
				ops := []int{0, 1, 2, 3, 11, 12, 13, 14, 15, 16, 17, 20, 21, 100, 101, 102, 103}
				for _, op := range ops {
					o := op % 100
					if k == 13 && (o == 2 || o == 3) {
						continue // float32 * and / : double rounding at full width is not decided by the installed solvers
					}
					if k == 13 && (o == 0 || o == 1 || o == 20 || o == 21) {
						continue // float32 + - : the double-rounding query came back unknown at 120 s (cvc5, z3) in this harness: not registered
					}
					for _, form := range []int{0, 1, 2} {
						if (op >= 100 && form == 1) || (o >= 17 && form != 0) {
							continue
						}
						ob := Oblig{Harness: "vh_C02_float", Globals: map[string]int{"vhOp": op, "vhKind": k, "vhForm": form, "vhBranch": 0}, TimeoutMs: 120000}
						if k == 13 {
							ob.Solver = "cvc5"
						}
						r = append(r, ob)
						if o >= 11 && o <= 16 {
							ob.Globals = map[string]int{"vhOp": op, "vhKind": k, "vhForm": form, "vhBranch": 1}
							r = append(r, ob)
						}
					}
				}
			}
			return r
		},
		Bounds:      []string{"all 11 integer kinds", "float64: + - * / comparisons neg inc dec and compound forms, all values incl. NaN, infinities, signed zeros; float32: comparisons and neg", "strings: + += and the six comparisons on ASCII strings of <= 6 bytes", "operand values: every 64-bit pattern, truncated to the operand kind by the frame slot", "operand forms: variable/variable, typed constant left/right, untyped constant left/right", "result contexts: plain destination slot, compound assignment, comparison result, comparison as branch condition", "shift counts: every uint value, and every int value (negative included)"},
		Assumptions: []string{"both operands have the node's type (type checker's contract); a shift count is uint or int", "frame slots are addressable reflect.Values of the operand kind (engine reflect model, validated on vectors)", "Go's operator semantics = the engine's encoding of the SSA BinOp/UnOp at the operand type (validated natively on vectors in both integer encodings)"},
		Outside:     []string{"float32 + - * / ++ -- (double rounding through float64: undecided by the installed solvers at full width), complex operands", "interface-typed destinations", "map-entry operands of compound assignment", "conversions (delegated to reflect.Value.Convert)", "type rules of typecheck.go"},
	}
}
