package main

var runidInstr = []Instr{
	{File: "interp/interp.go", Old: "func (f *frame) runid() uint64      { return atomic.LoadUint64(&f.id) }", New: "func (f *frame) runid() uint64      { vhTick(); return atomic.LoadUint64(&f.id) }"},
	{File: "interp/interp.go", Old: "func (interp *Interpreter) runid() uint64 { return atomic.LoadUint64(&interp.id) }", New: "func (interp *Interpreter) runid() uint64 { vhTick(); return atomic.LoadUint64(&interp.id) }"},
}

func init() {
	props["C09"] = &Prop{
		ID: "C09", PkgDir: "interp", PkgPath: interpPath, PkgName: "interp",
		Harness:    []string{"interp_common.go", "C09.go", "C09_block.go"},
		Instrument: runidInstr,
		Obligs: func(tier string) []Oblig {
			steps, nexec := 4, 2
			if tier == "thorough" {
				steps, nexec = 6, 3
			}
			g := map[string]int{"vhMaxSteps": steps, "vhNExec": nexec}
			var blocks []Oblig
			for op := 0; op <= 6; op++ {
				blocks = append(blocks, Oblig{Harness: "vh_C09_block", Globals: map[string]int{"vhBlockOp": op}, Unroll: 8})
			}
			return append(blocks, []Oblig{
				{Harness: "vh_C09_gate", Globals: g, Unroll: steps + 3},
				{Harness: "vh_C09_execute", Globals: g, Unroll: steps + 3},
				{Harness: "vh_C09_done", Globals: map[string]int{"vhMaxSteps": 2, "vhNExec": 1}, Unroll: 6},
				{Harness: "vh_C09_wrapper", Globals: map[string]int{"vhMaxSteps": 2, "vhNExec": 1}, Unroll: 6},
			}...)
		},
		Bounds:      []string{"<= 4 (quick) / 6 (thorough) exec steps in total", "2/3 distinct exec closures per activation, any successor relation", "cancel instant: any logical clock value (one tick per run-id load)", "Execute with root, 2 init/main nodes", "blocking operations recv (2 forms), recv2, send, range over channel, select (2 receive clauses): channel ready or not, any case of reflect.Select fires"},
		Assumptions: []string{"exec steps are opaque (any successor or nil)", "one cancel per evaluation", "single goroutine", "run-id accessors instrumented with the clock tick (overlay)"},
		Outside:     []string{"goroutine trees", "wall-clock promptness", "EvalWithContext's select itself"},
	}
	props["C10"] = &Prop{
		ID: "C10", PkgDir: "interp", PkgPath: interpPath, PkgName: "interp",
		Harness:    []string{"interp_common.go", "C09.go", "C09_block.go"},
		Instrument: runidInstr,
		Obligs: func(tier string) []Oblig {
			g := map[string]int{"vhMaxSteps": 2, "vhNExec": 1}
			return []Oblig{
				{Harness: "vh_C10_closure", Globals: g, Unroll: 6},
				{Harness: "vh_C10_wrapper", Globals: g, Unroll: 6},
				{Harness: "vh_C10_named", Globals: g, Unroll: 6},
			}
		},
		Bounds:      []string{"0..2 cancelled evaluations between definition and use", "use from a later Eval or directly from the host", "definition kinds: closure in a variable (getFunc), host-held wrapper (genFunctionWrapper), named function run from the root frame"},
		Assumptions: []string{"a cancelled evaluation is abstracted to its effect on the ids (root frame stamped, interpreter id advanced)", "function bodies are opaque exec steps"},
		Outside:     []string{"methods and method values (need the call generator)", "what the cancelled evaluation was doing (only its id effect matters for the gate)"},
	}
}
