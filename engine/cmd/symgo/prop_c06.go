package main

func init() {
	props["C06"] = &Prop{
		ID: "C06", PkgDir: "interp", PkgPath: interpPath, PkgName: "interp",
		Harness:    []string{"interp_common.go", "big_common.go", "C06.go"},
		Instrument: runidInstr,
		Obligs: func(tier string) []Oblig {
			return []Oblig{
				{Harness: "vh_C06_unwind", Unroll: 8},
				{Harness: "vh_C06_execute", Unroll: 8},
				{Harness: "vh_C06_reuse", Unroll: 8},
				{Harness: "vh_C06_defer_args", Unroll: 8},
				{Harness: "vh_C06_defer_slice", Unroll: 8},
				{Harness: "vh_C06_defer_bin", Unroll: 8},
				{Harness: "vh_C06_recover", Unroll: 8},
			}
		},
		Bounds:      []string{"defer stack of 0..3 entries", "each deferred callee: returns / recovers / panics with a new value", "body: returns or panics", "Execute: root program panics with an arbitrary string value or returns"},
		Assumptions: []string{"deferred callees are harness closures registered as []reflect.Value{reflect.ValueOf(fn)} (the representation call/callBin/genBuiltinDeferWrapper produce)", "a direct recover() is modelled by its effect f.recovered = nil (what _recover does on f.anc)", "reflect.Value.Call invokes the wrapped function"},
		Outside:     []string{"the registration site of deferred builtins (genBuiltinDeferWrapper)", "which run-time faults become panics", "nested call trees", "interpreter remains usable after a panic"},
	}
}
