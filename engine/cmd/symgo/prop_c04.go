package main

func init() {
	props["C04"] = &Prop{
		ID: "C04", PkgDir: "interp", PkgPath: interpPath, PkgName: "interp",
		Harness:    []string{"interp_common.go", "big_common.go", "C04.go"},
		Instrument: runidInstr,
		Obligs: func(tier string) []Oblig {
			var r []Oblig
			maxN := 2
			if tier == "thorough" {
				maxN = 3
			}
			for n := 1; n <= maxN; n++ {
				for def := 0; def <= 1; def++ {
					for arr := 0; arr <= 1; arr++ {
						r = append(r, Oblig{Harness: "vh_C04_assign", Globals: map[string]int{"vhNAssign": n, "vhDefine": def, "vhSlotArr": arr}, Unroll: 12, MaxPaths: 400000})
					}
				}
			}
			r = append(r, Oblig{Harness: "vh_C04_recvcopy", Unroll: 12})
			for form := 0; form <= 5; form++ {
				r = append(r, Oblig{Harness: "vh_C04_slice", Globals: map[string]int{"vhSliceForm": form}, Unroll: 12})
			}
			for n := 1; n <= 3; n++ {
				r = append(r, Oblig{Harness: "vh_C04_return", Globals: map[string]int{"vhNRet": n}, Unroll: 12})
			}
			return r
		},
		Bounds:      []string{"1..2 (thorough 3) operands on each side", "destinations and sources: any of 4 frame slots (every aliasing pattern)", "any subset of destinations blank", "= and := forms", "variables of type int (any value in (-1000,1000)) or [2]int (arrays are values: assignment copies)"},
		Assumptions: []string{"operands are plain variables of type int or [2]int in the current frame (copy semantics of reflect.Value.Set on arrays is the reflect model's)", "a := statement does not repeat a variable on its left side"},
		Outside:     []string{"everything else in C04: call/range/capture copies, append/copy, maps, pointers, composite literals, map-entry and index destinations, histories"},
	}
}
