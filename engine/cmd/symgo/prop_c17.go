package main

const interpPath = "github.com/traefik/yaegi/interp"

func init() {
	props["C17"] = &Prop{
		ID: "C17", PkgDir: "interp", PkgPath: interpPath, PkgName: "interp",
		Harness: []string{"C17.go"}, Solver: "cvc5", ValidateRun: "^TestVerifValidateC17$", TestFiles: []string{"C17_validate.go.txt"},
		Redirects: map[string]string{
			interpPath + ".vhNameMatch":   "vmNameMatch",
			interpPath + ".vhLineMatch":   "vmLineMatch",
			interpPath + ".vhReleaseTags": "vmReleaseTags",
			interpPath + ".vhHeaderMatch": "vmHeaderMatch",
			interpPath + ".matchBuildTag": "vmMatchPred",
			interpPath + ".vmMatchTag":    "vmMatchPred",
			"go/parser.ParseFile":         "vmParseFile",
			"(*go/ast.CommentGroup).Text": "vmCommentText",
		},
		Obligs: func(tier string) []Oblig {
			var r []Oblig
			noPred := []string{"vmMatchPred"}
			// +build lines with several options or tags: every such obligation exhausted its time
			// budget in a 44 min thorough run (and splitting them by tag kind did not finish in 83 min):
			// they are not part of any tier; such lines are outside the claim
			maxParts, maxOpts, maxTags := 4, 1, 1
			if tier == "thorough" {
				maxParts = 5
			}
			// heaviest first: the workers then finish together
			for parts := maxParts; parts >= 1; parts-- {
				for dot := 0; dot <= 2; dot++ {
					if tier != "thorough" && parts == 4 && dot > 0 {
						continue // (4 words + dotted segment: thorough)
					}
					r = append(r, Oblig{Harness: "vh_C17_name", DropRedirects: noPred, Unroll: 8, Globals: map[string]int{"vhNParts": parts, "vhDotSeg": dot, "vhNoGo": 0}})
				}
			}
			r = append(r, Oblig{Harness: "vh_C17_name", DropRedirects: noPred, Unroll: 14, Globals: map[string]int{"vhNoGo": 1}})
			for kind := 1; kind <= 3; kind++ {
				r = append(r, Oblig{Harness: "vh_C17_line", DropRedirects: noPred, Unroll: 12, Globals: map[string]int{"vhLineKind": kind}})
			}
			for opts := 1; opts <= maxOpts; opts++ {
				for tags := 1; tags <= maxTags; tags++ {
					if tier != "thorough" && opts*tags > 1 {
						continue
					}
					for gap := -1; gap < opts; gap++ {
						if opts*tags == 1 {
							// one tag: split by tag kind (4 cheaper obligations, same union)
							for kind := 0; kind <= 3; kind++ {
								r = append(r, Oblig{Harness: "vh_C17_line", DropRedirects: noPred, Unroll: 8, Globals: map[string]int{"vhLineKind": 0, "vhNOpts": 1, "vhNTags": 1, "vhGapAt": gap, "vhTagKind": kind}})
							}
							continue
						}
						// several tags, any mix of kinds: the largest of these obligations exhaust their time
						// budget (44 min run: 8 of 132 obligations) and are then reported as inconclusive, i.e.
						// the claim of the thorough tier for multi-tag lines is the part the evidence lists as discharged;
						// splitting them by tag kind was tried and did not finish in 83 min
						r = append(r, Oblig{Harness: "vh_C17_line", DropRedirects: noPred, Unroll: 8, Globals: map[string]int{"vhLineKind": 0, "vhNOpts": opts, "vhNTags": tags, "vhGapAt": gap, "vhTagKind": -1}})
					}
				}
			}
			// Constraint headers, decided in two steps.
			// (a) tag level, real matchBuildTag against the restated go/build rule:
			//     a single-tag //go:build line, every tag kind, and a single +build line.
			r = append(r, Oblig{Harness: "vh_C17_header", DropRedirects: noPred, Unroll: 8, Globals: map[string]int{"vhHasGoBuild": 1, "vhExprShape": 0, "vhNPlusLines": 0, "vhDocGroup": 0, "vhHdrSimple": 0}})
			if tier == "thorough" {
				r = append(r, Oblig{Harness: "vh_C17_header", DropRedirects: noPred, Unroll: 8, Globals: map[string]int{"vhHasGoBuild": 1, "vhExprShape": 1, "vhNPlusLines": 0, "vhDocGroup": 1, "vhHdrSimple": 0}})
				r = append(r, Oblig{Harness: "vh_C17_header", DropRedirects: noPred, Unroll: 8, Globals: map[string]int{"vhHasGoBuild": 0, "vhNPlusLines": 1, "vhDocGroup": 1, "vhLineKind": 0, "vhNOpts": 1, "vhNTags": 1, "vhGapAt": -1}})
			}
			// (b) structure: tag matching on both sides (matchBuildTag, restated rule) is
			//     one uninterpreted predicate over the tag text; expression shapes,
			//     precedence of //go:build over +build lines, AND of +build lines.
			maxPlus := 1
			if tier == "thorough" {
				maxPlus = 2
			}
			for shape := 0; shape <= 9; shape++ {
				for plus := 0; plus <= maxPlus; plus++ {
					if tier != "thorough" && plus > 0 && shape%3 != 0 {
						continue
					}
					r = append(r, Oblig{Harness: "vh_C17_header", Unroll: 8, Globals: map[string]int{"vhHasGoBuild": 1, "vhExprShape": shape, "vhNPlusLines": plus, "vhDocGroup": shape % 2, "vhHdrSimple": 1, "vhLineKind": 0, "vhNOpts": 1, "vhNTags": 1 + plus%2, "vhGapAt": -1}})
				}
			}
			hdr := func(plus, opts, tags int) Oblig {
				return Oblig{Harness: "vh_C17_header", Unroll: 8, Globals: map[string]int{"vhHasGoBuild": 0, "vhNPlusLines": plus, "vhDocGroup": plus % 2, "vhHdrSimple": 1, "vhLineKind": 0, "vhNOpts": opts, "vhNTags": tags, "vhGapAt": -1}}
			}
			r = append(r, hdr(1, 1, 2), hdr(1, 2, 1), hdr(2, 1, 1))
			if tier == "thorough" {
				r = append(r, hdr(2, 1, 2), hdr(2, 2, 1), hdr(3, 1, 1))
			}
			return r
		},
		Bounds:      []string{"file name: 1..4 (thorough 5) '_'-separated words of <= 11 bytes over [a-z0-9], optional .word / .word_word segment (with 4 words: thorough only), .go", "+build line: 1 option x 1 tag with !/!!, generic/go1.N/go1.junk/malformed words <= 8 bytes (lines with several options or tags did not finish within the time budget and are outside the claim)", "constraint header: optional //go:build line (10 expression shapes, <= 3 tags) + 0..1 (thorough 2) +build lines; +build-only headers of 1..2 (thorough 3) lines", "GOOS, GOARCH: any value of go/build's known lists", "release go1.1..go1.40", "one custom build tag <= 8 bytes"},
		Assumptions: []string{"symbolic strings are ASCII", "Context.Compiler, CgoEnabled, ToolTags empty (compiler/cgo tags outside the claim)", "file names contain no '/'"},
	}
}
