package main

const interpPath = "github.com/traefik/yaegi/interp"

func init() {
	props["C17"] = &Prop{
		ID: "C17", PkgDir: "interp", PkgPath: interpPath, PkgName: "interp",
		Harness: []string{"C17.go"}, Solver: "cvc5", ValidateRun: "^TestVerifValidateC17$", TestFiles: []string{"C17_validate.go.txt"},
		Redirects: map[string]string{
			interpPath + ".vhNameMatch":   "vmNameMatch",
			interpPath + ".vhLineMatch":   "vmLineMatch",
			interpPath + ".vhReleaseTags": "vmReleaseTags",
		},
		Obligs: func(tier string) []Oblig {
			var r []Oblig
			maxParts, maxOpts, maxTags := 4, 2, 2
			if tier == "thorough" {
				maxParts, maxOpts, maxTags = 5, 2, 2
			}
			for parts := 1; parts <= maxParts; parts++ {
				for dot := 0; dot <= 2; dot++ {
					r = append(r, Oblig{Harness: "vh_C17_name", Unroll: 8, Globals: map[string]int{"vhNParts": parts, "vhDotSeg": dot, "vhNoGo": 0}})
				}
			}
			r = append(r, Oblig{Harness: "vh_C17_name", Unroll: 14, Globals: map[string]int{"vhNoGo": 1}})
			for kind := 1; kind <= 3; kind++ {
				r = append(r, Oblig{Harness: "vh_C17_line", Unroll: 12, Globals: map[string]int{"vhLineKind": kind}})
			}
			for opts := 1; opts <= maxOpts; opts++ {
				for tags := 1; tags <= maxTags; tags++ {
					if tier != "thorough" && opts*tags > 1 {
						continue
					}
					for gap := -1; gap < opts; gap++ {
						r = append(r, Oblig{Harness: "vh_C17_line", Unroll: 8, Globals: map[string]int{"vhLineKind": 0, "vhNOpts": opts, "vhNTags": tags, "vhGapAt": gap}})
					}
				}
			}
			return r
		},
		Bounds: []string{"file name <= 12 (quick) / 20 (thorough) bytes over [a-z0-9_.]", "<= 6 '_'-separated parts", "+build line <= 12/20 bytes over [a-z0-9_.!, +]", "GOOS, GOARCH: any value of go/build's known lists", "release go1.1..go1.40", "one custom build tag <= 8 bytes"},
		Assumptions: []string{"symbolic strings are ASCII", "Context.Compiler, CgoEnabled, ToolTags empty (compiler/cgo tags outside the claim)", "file names contain no '/'"},
	}
}
