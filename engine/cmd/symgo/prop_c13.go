package main

import "verif/engine/sym"

func init() {
	props["C13"] = &Prop{
		ID: "C13", PkgDir: "interp", PkgPath: interpPath, PkgName: "interp",
		Harness:    []string{"interp_common.go", "C13.go", "C13_exit.go"},
		InlinePkgs: []string{"github.com/traefik/yaegi/stdlib"},
		InitFiles:  map[string][]string{"github.com/traefik/yaegi/stdlib": {".go"}},
		Instrument: runidInstr,
		Solver:     "cvc5",
		Setup: func(e *sym.Engine) {
			for _, f := range []string{"os.Expand", "os.getShellName", "os.isShellSpecialVar", "os.isAlphaNum"} {
				e.AllowInline[f] = true
			}
			e.AllowInline["sort.Strings"] = false
			e.SetGlobalStrings("os", "Args", []string{"prog"}) // the initialiser of package os is not executed
		},
		Obligs: func(tier string) []Oblig {
			var r []Oblig
			for op := 0; op <= 6; op++ {
				r = append(r, Oblig{Harness: "vh_C13_env", Globals: map[string]int{"vhEnvOp": op}, Unroll: 20})
			}
			r = append(r, Oblig{Harness: "vh_C13_io", Unroll: 8})
			r = append(r, Oblig{Harness: "vh_C13_table", Unroll: 400})
			for f := 0; f < 16; f++ {
				r = append(r, Oblig{Harness: "vh_C13_log", Unroll: 400, Globals: map[string]int{"vhLogFn": f}})
			}
			r = append(r, Oblig{Harness: "vh_C13_flag", Unroll: 400})
			for f := 0; f <= 6; f++ {
				r = append(r, Oblig{Harness: "vh_C13_exit", Unroll: 8, Globals: map[string]int{"vhExitFn": f}})
			}
			return r
		},
		Bounds:      []string{"initial virtual environment: two arbitrary entries (keys, values: words of 0..4 bytes over [abcXYZ_=])", "one operation with arbitrary key/value, then an arbitrary probe key (one inductive step)", "ExpandEnv on the fixed pattern <$abc|${XYZ}>", "exit overrides: any exit code (int), message of 1..4 bytes, one call per entry point (7 entry points)", "default table: every initialiser of package stdlib for the toolchain's Go release"},
		Assumptions: []string{"host functions of os, fmt are opaque and recorded", "binPkg[os] initially bound to the host functions", "host log.Panic* functions are opaque: reaching exactly one of them counts as the panic"},
		Outside:     []string{"the import forms (gta import handling)", "os.Args, flag, log redirection", "Options.Env parsing in New", "os.FindProcess"},
	}
}
