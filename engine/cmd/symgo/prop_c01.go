package main

import (
	"path/filepath"

	"verif/engine/sym"
)

func init() {
	ip := "(*" + interpPath + ".Interpreter)."
	props["C01"] = &Prop{
		ID: "C01", PkgDir: "interp", PkgPath: interpPath, PkgName: "interp",
		Harness:    []string{"interp_common.go", "E2E.go"},
		Instrument: runidInstr, GenAST: true, E2EDir: "e2e_programs", TestFiles: []string{"ast_dump_test.go.txt"},
		Setup:     func(e *sym.Engine) { e.MaxDepth = 4000; e.MaxSteps = 20000000 },
		Redirects: map[string]string{ip + "parse": "vmE2EParse", ip + "ast": "vmE2EAst"},
		Obligs: func(tier string) []Oblig {
			var r []Oblig
			files, _ := filepath.Glob(filepath.Join(verifDir, "harness", "e2e_programs", "*.go.txt"))
			for k := range files {
				r = append(r, Oblig{Harness: "vh_E2E", Unroll: 400, MaxPaths: 20000, Globals: map[string]int{"vhProgIdx": k}})
			}
			return r
		},
		Bounds:      []string{"the program texts of harness/e2e_programs (25), each for ALL values of its two integer inputs in (-1000, 1000)", "up to 400 solver decisions and 20 million executed SSA instructions per path"},
		Assumptions: []string{"the parser step is replaced by trees dumped from the real front end on every run (TestVerifDumpAST) and rebuilt node by node", "the reference is the same text compiled as a twin package and executed by the engine under Go's own semantics (natively: the real compiled package)", "host functions A, B, Out are the only interface of a program"},
		Outside:     []string{"every program outside the corpus", "floats, goroutines and channels, fmt output, other input types", "the parser"},
	}
}
