package main

import (
	"fmt"
	"os"
	"path/filepath"
	"strings"

	"verif/engine/sym"
)

func e2eProp(id, dir string, bounds, outside []string) *Prop {
	ip := "(*" + interpPath + ".Interpreter)."
	return &Prop{
		ID: id, PkgDir: "interp", PkgPath: interpPath, PkgName: "interp",
		Harness:    []string{"interp_common.go", "E2E.go"},
		InlinePkgs: []string{"github.com/traefik/yaegi/stdlib", "errors"},
		InitFiles:  map[string][]string{"github.com/traefik/yaegi/stdlib": {"_errors.go", "_fmt.go", "_io.go", "_sort.go", "stdlib.go", "wrapper-composed.go", "maptypes.go"}},
		Instrument: runidInstr, GenAST: true, E2EDir: dir, TestFiles: []string{"ast_dump_test.go.txt"},
		Setup:     func(e *sym.Engine) { e.MaxDepth = 4000; e.MaxSteps = 20000000 },
		Redirects: map[string]string{ip + "parse": "vmE2EParse", ip + "ast": "vmE2EAst", ip + "stripReceiverFromArgs": "vmStripReceiver"},
		Obligs: func(tier string) []Oblig {
			var r []Oblig
			files, _ := filepath.Glob(filepath.Join(verifDir, "harness", dir, "*.go.txt"))
			bound := 1000
			if tier == "thorough" {
				bound = 1 << 31 // every 32-bit input; the programs compute in 64-bit int with wrap-around
			}
			for k := range files {
				num := 1
				fmt.Sscanf(id, "C%d", &num)
				r = append(r, Oblig{Harness: "vh_E2E", Unroll: 400, MaxPaths: 20000, Globals: map[string]int{"vhProgIdx": k, "vhInputBound": bound, "vhPropNum": num}})
			}
			return r
		},
		SampleModels: []map[string]string{{"a": "0", "b": "0"}, {"a": "1", "b": "-1"}, {"a": "5", "b": "3"}, {"a": "-7", "b": "2"}, {"a": "300", "b": "-200"}, {"a": "-999", "b": "999"}},
		Bounds:       bounds,
		Assumptions:  []string{"the parser step is replaced by trees dumped from the real front end on every run (TestVerifDumpAST) and rebuilt node by node", "the reference is the same text compiled as a twin package and executed by the engine under Go's own semantics (natively: the real compiled package)", "package host (inputs A, B; outputs Out; Str, Err, Sort, Read, Write, Copy taking interfaces) is the only interface of a program"},
		Outside:      outside,
	}
}

// c11Prop: the programs of harness/e2e_c11, each evaluated whole and through every sequence of
// chunks the runner derives from its text (e2eChunkSchemes).
func c11Prop() *Prop {
	p := e2eProp("C11", "e2e_c11",
		[]string{"the program texts of harness/e2e_c11; for each: Compile then Execute of the whole text; and the cuts: one Eval per top-level declaration; the declarations then every statement of main as a loose statement (interactive style); every cut of the declarations into two Evals (thorough; quick: the middle cut); for the programs which have one, a hand-written interactive session with redefinitions of functions and variables between uses (<name>.hist.txt), claimed equivalent to the program; each for ALL values of the two integer inputs in (-1000, 1000) (quick) or (-2^31, 2^31) (thorough)"},
		[]string{"programs outside the corpus", "CompileAST and EvalPath entry points (successive Eval calls and Compile+Execute of the whole text are exercised)", "the final global state beyond what the program outputs", "declarations out of dependency order (piecewise evaluation needs definitions before uses)", "the parser (each chunk's tree is dumped from the real front end, parsed the way Eval parses it)"})
	p.E2EChunks = true
	p.Assumptions = append(p.Assumptions, "the reference is the interpreter itself evaluating the text in one piece (not the compiled twin)")
	dir := "e2e_c11"
	p.Obligs = func(tier string) []Oblig {
		var r []Oblig
		files, _ := filepath.Glob(filepath.Join(verifDir, "harness", dir, "*.go.txt"))
		bound := 1000
		if tier == "thorough" {
			bound = 1 << 31
		}
		for k, f := range files {
			b, _ := os.ReadFile(f)
			// the whole text through Compile then Execute
			r = append(r, Oblig{Harness: "vh_E2E_chunks", Unroll: 400, MaxPaths: 20000, Globals: map[string]int{"vhProgIdx": k, "vhScheme": -1, "vhInputBound": bound}})
			schemes, _ := e2eChunkSchemes(string(b))
			nsplit := len(schemes)
			schemes = append(schemes, e2eHistory(strings.TrimSuffix(f, ".go.txt")+".hist.txt"))
			for si, sch := range schemes {
				if len(sch) == 0 {
					continue
				}
				// quick: per declaration, loose statements, the middle two-chunk cut, the session
				if tier != "thorough" && si >= 2 && si < nsplit && si != 2+(nsplit-2)/2 {
					continue
				}
				r = append(r, Oblig{Harness: "vh_E2E_chunks", Unroll: 400, MaxPaths: 20000, Globals: map[string]int{"vhProgIdx": k, "vhScheme": si, "vhInputBound": bound}})
			}
		}
		return r
	}
	return p
}

func init() {
	props["C11"] = c11Prop()
	props["C01"] = e2eProp("C01", "e2e_programs",
		[]string{"the program texts of harness/e2e_programs, each for ALL values of its two integer inputs in (-1000, 1000) (quick) or (-2^31, 2^31) (thorough)", "up to 400 solver decisions and 20 million executed SSA instructions per path"},
		[]string{"every program outside the corpus", "floats, goroutines and channels, fmt output, other input types", "the parser"})
	props["C07"] = e2eProp("C07", "e2e_c07",
		[]string{"the program texts of harness/e2e_c07: script code calling the functions of package host, whose signatures cover structs by value and by pointer, pointers returned by the host, arrays by value and by pointer, slices (read, mutated in place, grown, nil, sub-slices, slices of arrays), maps (read, written, nil, of structs), variadic calls (none, several, spread, empty spread), multiple results with an error, bool/int8/uint16/string/rune parameters and results, named basic types, slices of structs, function-typed parameters (named functions, closures, method values, nil) and results (host closures composed with script functions) in both directions, callbacks taking host structs and returning (int, error); each for ALL values of its two integer inputs in (-1000, 1000) (quick) or (-2^31, 2^31) (thorough)"},
		[]string{"signatures outside package host of harness/E2E.go (the property quantifies over a type grammar: this is a bounded claim)", "host variables", "functions and variables obtained from the interpreter by Eval of a symbol, Symbols or Globals and used natively (the other direction is exercised through callbacks only)", "floats, complex, channels", "the parser"})
	props["C05"] = e2eProp("C05", "e2e_c05",
		[]string{"the program texts of harness/e2e_c05 (method sets, value and pointer receivers, embedding to depth 3 with promoted and shadowed methods, method values, interfaces with overlapping method sets, one- and two-result assertions, type switches with concrete, interface, several-type, nil and default clauses, interface-typed fields and elements, interpreted values handed to compiled code as fmt.Stringer, error, sort.Interface, io.Reader, io.Writer), each for ALL values of its two integer inputs in (-1000, 1000) (quick) or (-2^31, 2^31) (thorough)"},
		[]string{"every type hierarchy outside the corpus (the property quantifies over random hierarchies: this is a bounded claim)", "method expressions (known finding of C01)", "generic types", "compiled interfaces other than the five the host package uses", "the parser"})
}
