package main

import (
	"fmt"
	"go/types"
	"os"
	"path/filepath"
	"sort"
	"strings"
	"time"

	"golang.org/x/tools/go/ssa"

	"verif/engine/sym"
)

const stdlibPath = "github.com/traefik/yaegi/stdlib"

// C14 (narrow): every generated interface wrapper method forwards to the
// field of the same name with the arguments in order and returns its results.
// The wrapper methods are executed from SSA with the W<Method> fields bound to
// recording stubs and symbolic arguments.
func init() {
	props["C14"] = &Prop{ID: "C14", PkgDir: "stdlib", PkgPath: stdlibPath, PkgName: "stdlib", Custom: runC14, Harness: []string{"C14_stub.go"}, TestFiles: []string{"C14_replay.go.txt"},
		Bounds:      []string{"every method of every _pkg_Iface wrapper type compiled for the running Go release (go1_22 files)"},
		Assumptions: []string{"W<Method> fields are uninterpreted functions (recording stubs with fresh results)", "arguments are unconstrained symbolic values of their types"},
		Outside:     []string{"that each map entry denotes the identically named object, constant values, completeness against api/go1*.txt (finite syntactic facts, a different technique)", "go1_21 files (not selected by the installed toolchain)", "syscall/unsafe/unrestricted sub-packages"},
	}
}

func runC14(p *Prop, tier string, seed int, evPath string) int {
	t0 := time.Now()
	prog, err := sym.Load(repoDir, []string{"./stdlib"}, nil, []string{stdlibPath}, nil)
	if err != nil {
		fmt.Println("INCONCLUSIVE: cannot load ./stdlib:", firstLine(err.Error()))
		writeEvidence(evPath, p.ID, tier, seed, time.Since(t0), nil, nil, 0, []string{"load failed"}, 0, p)
		return 0
	}
	e, err := sym.NewEngine(prog, "z3", 10000)
	if err != nil {
		fmt.Fprintln(os.Stderr, err)
		return 2
	}
	defer e.Close()
	e.NoErrFork = true
	pk := prog.Package(stdlibPath)
	type item struct {
		typ  *types.Named
		meth *types.Func
	}
	var items []item
	for _, m := range pk.Members {
		t, ok := m.(*ssa.Type)
		if !ok || !strings.HasPrefix(t.Name(), "_") {
			continue
		}
		named, ok := t.Type().(*types.Named)
		if !ok {
			continue
		}
		st, ok := named.Underlying().(*types.Struct)
		if !ok || st.NumFields() == 0 || st.Field(0).Name() != "IValue" {
			continue
		}
		for i := 0; i < named.NumMethods(); i++ {
			items = append(items, item{named, named.Method(i)})
		}
	}
	sort.Slice(items, func(i, j int) bool {
		return items[i].typ.Obj().Name()+"."+items[i].meth.Name() < items[j].typ.Obj().Name()+"."+items[j].meth.Name()
	})
	var inconclusive []string
	type failure struct{ typ, meth, why string }
	var failures []failure
	var samples []sampleRec
	checked := 0
	for _, it := range items {
		fn := prog.Prog.FuncValue(it.meth)
		if fn == nil || fn.Blocks == nil {
			inconclusive = append(inconclusive, it.typ.Obj().Name()+"."+it.meth.Name()+": no SSA body")
			continue
		}
		stt := it.typ.Underlying().(*types.Struct)
		sig := it.meth.Type().(*types.Signature)
		name := it.typ.Obj().Name() + "." + it.meth.Name()
		wantField := "W" + it.meth.Name()
		var params []sym.Value
		var why string
		reason := e.RunOnce(fn, func(st *sym.State) []sym.Value {
			fields := make([]sym.Value, stt.NumFields())
			for i := 0; i < stt.NumFields(); i++ {
				f := stt.Field(i)
				if fs, ok := f.Type().Underlying().(*types.Signature); ok {
					fields[i] = sym.StubFunc(f.Name(), fs)
				} else {
					fields[i] = e.Zero(f.Type())
				}
			}
			args := []sym.Value{&sym.StructV{F: fields}}
			for i := 0; i < sig.Params().Len(); i++ {
				v := st.FreshValue(fmt.Sprintf("p%d", i), sig.Params().At(i).Type())
				params = append(params, v)
				args = append(args, v)
			}
			return args
		}, func(st *sym.State, ret sym.Value, panicked string) {
			if panicked != "" {
				why = "panics: " + panicked
				return
			}
			var calls []sym.Event
			for _, ev := range st.Events() {
				if strings.HasPrefix(ev.Tag, "opaque:@stub:") {
					calls = append(calls, ev)
				}
			}
			if len(calls) != 1 {
				why = fmt.Sprintf("%d forwarded calls instead of 1", len(calls))
				return
			}
			c := calls[0]
			if got := strings.TrimPrefix(c.Tag, "opaque:@stub:"); got != wantField {
				why = "forwards to field " + got + " instead of " + wantField
				return
			}
			if len(c.Args) != len(params) {
				why = fmt.Sprintf("%d arguments forwarded, %d parameters", len(c.Args), len(params))
				return
			}
			for i := range params {
				eq, ok := st.EqValues(params[i], c.Args[i])
				if !ok {
					why = fmt.Sprintf("argument %d cannot be compared", i)
					return
				}
				st.AssertDriver("C14.forward."+name, eq)
				if eq.Const && !eq.CB {
					why = fmt.Sprintf("argument %d is not parameter %d", i, i)
					return
				}
			}
			if eq, ok := st.EqValues(ret, c.Result); !ok || (eq.Const && !eq.CB) {
				why = "the result is not what the field returned"
				return
			} else {
				st.AssertDriver("C14.forward."+name, eq)
			}
			if len(params) == 0 {
				st.AssertDriver("C14.forward."+name, sym.TrueT)
			}
		})
		// String() wrappers guard against a nil field: two paths (nil / non-nil) are legitimate
		if reason != "done" {
			if it.meth.Name() == "String" && reason == "forked" {
				inconclusive = append(inconclusive, name+": forks (nil guard); checked on the non-nil path only")
			} else if reason != "forked" {
				inconclusive = append(inconclusive, name+": "+reason)
				continue
			}
		}
		checked++
		if why != "" {
			failures = append(failures, failure{it.typ.Obj().Name(), it.meth.Name(), why})
		}
		if len(samples) < 12 {
			samples = append(samples, sampleRec{Obligation: "C14.forward." + name, Harness: fn.String(), Verdict: map[bool]string{true: "holds", false: "counterexample"}[why == ""], Paths: 1, Solver: "z3"})
		}
	}
	// violations found by the solver (non-constant equalities)
	for _, v := range e.Violations {
		nm := strings.TrimPrefix(v.ID, "C14.forward.")
		parts := strings.SplitN(nm, ".", 2)
		if len(parts) == 2 {
			failures = append(failures, failure{parts[0], parts[1], "an argument or result differs from what must be forwarded"})
		}
	}
	exit := 0
	nViol := 0
	os.RemoveAll(filepath.Join(verifDir, "replays", p.ID))
	os.MkdirAll(filepath.Join(verifDir, "replays", p.ID), 0o755)
	if len(failures) > 0 {
		// replay natively: call the method through reflection with recording closures
		sc, _, err := newScratch(p, true)
		if err == nil {
			defer sc.cleanup()
			seen := map[string]bool{}
			for _, f := range failures {
				key := f.typ + "." + f.meth
				if seen[key] {
					continue
				}
				seen[key] = true
				out, _ := sc.goTest(p, "^TestVerifReplayC14$", []string{"VERIF_C14_TYPE=" + f.typ, "VERIF_C14_METHOD=" + f.meth}, false, 10*time.Minute)
				path := filepath.Join(verifDir, "replays", p.ID, sanitize(key)+".json")
				os.WriteFile(path, []byte(fmt.Sprintf("{\"property\":\"C14\",\"type\":%q,\"method\":%q,\"why\":%q}\n", f.typ, f.meth, f.why)), 0o644)
				if strings.Contains(out, "VC14 BAD") {
					fmt.Printf("VIOLATION property=C14 replay=%s\n  wrapper %s.%s: %s (reproduced natively through reflection)\n", path, f.typ, f.meth, f.why)
					nViol++
					exit = 1
				} else {
					fmt.Printf("UNREPRODUCED wrapper %s.%s: %s\n%s\n", f.typ, f.meth, f.why, tail(out, 4))
					inconclusive = append(inconclusive, key+": counterexample did not reproduce natively")
				}
			}
		}
	}
	for _, inc := range inconclusive {
		fmt.Println("INCONCLUSIVE:", inc)
	}
	cov := map[string]interface{}{
		"states": maxInt(e.Stats.Paths, 1), "transitions": maxInt(e.Stats.Instrs, 1), "traces_validated_against_impl": 0,
		"samples": samplesOrPlaceholder(samples), "obligations": len(items), "discharged": checked - len(failures),
		"queries": e.Solver.Queries, "solver_time_s": e.Solver.Time.Seconds(), "wrapper_methods": len(items),
		"functions_encoded": []string{fmt.Sprintf("%d wrapper methods of package stdlib (receiver types _pkg_Iface)", checked)},
		"bounds": p.Bounds, "outside": p.Outside, "inconclusive": inconclusive, "source_hash": prog.SourceHash(),
		"technique": "symbolic execution of each wrapper method from go/ssa with uninterpreted W-fields; argument/result identity asserted (z3)",
	}
	writeEvidenceCov(evPath, p.ID, tier, seed, time.Since(t0), cov, p.Assumptions, nViol)
	fmt.Printf("C14 %s: wrapper methods=%d checked=%d violations=%d inconclusive=%d wall=%.1fs\n", tier, len(items), checked, nViol, len(inconclusive), time.Since(t0).Seconds())
	return exit
}
