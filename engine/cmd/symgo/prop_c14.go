package main

import (
	"encoding/json"
	"fmt"
	"go/types"
	"os"
	"path/filepath"
	"sort"
	"strings"
	"time"

	"golang.org/x/tools/go/ssa"

	"verif/engine/sym"
)

const stdlibPath = "github.com/traefik/yaegi/stdlib"

// C14 (narrow): every generated interface wrapper method forwards to the
// field of the same name with the arguments in order and returns its results.
// The wrapper methods are executed from SSA with the W<Method> fields bound to
// recording stubs and symbolic arguments.
func init() {
	props["C14"] = &Prop{ID: "C14", PkgDir: "stdlib", PkgPath: stdlibPath, PkgName: "stdlib", Custom: runC14, Harness: []string{"C14_stub.go"}, TestFiles: []string{"C14_replay.go.txt"},
		Bounds:      []string{"every entry of the tables built by the initialisers of stdlib, stdlib/unrestricted, stdlib/syscall and stdlib/unsafe as compiled for the running toolchain and platform (go1_22 files, linux/amd64 syscall table): 8152 bindings", "every method of every _pkg_Iface wrapper type compiled for the running Go release (go1_22 files)"},
		Assumptions: []string{"W<Method> fields are uninterpreted functions (recording stubs with fresh results)", "arguments are unconstrained symbolic values of their types", "binding identity has no symbolic input: the engine evaluates the real initialisers and each entry's denotation is compared with the go/types object the key names; the solver is not involved in that part", "completeness is judged against the toolchain's packages minus what GOROOT/api/go1.N.txt (N >= 23) lists as added after go1.22", "typed floating-point constants: none occur in the tables (they would be reported as not compared)"},
		Outside:     []string{"go1_21 files (not selected by the installed toolchain)", "syscall tables of other platforms", "in stdlib/unsafe the builtins Sizeof, Alignof, Offsetof, Add (no package-level object to denote)", "MapTypes and wrapper-composed.go"},
	}
}

func runC14(p *Prop, tier string, seed int, evPath string) int {
	t0 := time.Now()
	prog, err := sym.Load(repoDir, []string{"./stdlib", "./stdlib/unrestricted", "./stdlib/syscall", "./stdlib/unsafe"}, nil, []string{stdlibPath, stdlibPath + "/unrestricted", stdlibPath + "/syscall", stdlibPath + "/unsafe"}, nil)
	if err != nil {
		fmt.Println("INCONCLUSIVE: cannot load ./stdlib:", firstLine(err.Error()))
		writeEvidence(evPath, p.ID, tier, seed, time.Since(t0), nil, nil, 0, []string{"load failed"}, 0, p)
		return 0
	}
	e, err := sym.NewEngine(prog, "z3", 10000)
	if err != nil {
		fmt.Fprintln(os.Stderr, err)
		return 2
	}
	defer e.Close()
	e.NoErrFork = true
	// ---- binding identity: the table the initialisers build ----
	var bindEntries, bindCompared int
	var bindFails []c14BindFailure
	var bindNotes []string
	var berr error
	for _, tb := range c14Tables {
		en, cm, fl, nt, err := c14CheckBindings(prog, e, tb.Path, tb.Restricted, tb.MinPkgs, tb.Skip)
		if err != nil {
			berr = err
			fmt.Println("INCONCLUSIVE: binding table:", err)
			continue
		}
		bindEntries, bindCompared = bindEntries+en, bindCompared+cm
		bindFails = append(bindFails, fl...)
		bindNotes = append(bindNotes, fmt.Sprintf("%s: %d entries, %d compared", tb.Path, en, cm))
		bindNotes = append(bindNotes, nt...)
	}
	pk := prog.Package(stdlibPath)
	type item struct {
		typ  *types.Named
		meth *types.Func
	}
	var items []item
	for _, m := range pk.Members {
		t, ok := m.(*ssa.Type)
		if !ok || !strings.HasPrefix(t.Name(), "_") {
			continue
		}
		named, ok := t.Type().(*types.Named)
		if !ok {
			continue
		}
		st, ok := named.Underlying().(*types.Struct)
		if !ok || st.NumFields() == 0 || st.Field(0).Name() != "IValue" {
			continue
		}
		for i := 0; i < named.NumMethods(); i++ {
			items = append(items, item{named, named.Method(i)})
		}
	}
	sort.Slice(items, func(i, j int) bool {
		return items[i].typ.Obj().Name()+"."+items[i].meth.Name() < items[j].typ.Obj().Name()+"."+items[j].meth.Name()
	})
	var inconclusive []string
	type failure struct{ typ, meth, why string }
	var failures []failure
	var samples []sampleRec
	checked := 0
	for _, it := range items {
		fn := prog.Prog.FuncValue(it.meth)
		if fn == nil || fn.Blocks == nil {
			inconclusive = append(inconclusive, it.typ.Obj().Name()+"."+it.meth.Name()+": no SSA body")
			continue
		}
		stt := it.typ.Underlying().(*types.Struct)
		sig := it.meth.Type().(*types.Signature)
		name := it.typ.Obj().Name() + "." + it.meth.Name()
		wantField := "W" + it.meth.Name()
		var params []sym.Value
		var why string
		reason := e.RunOnce(fn, func(st *sym.State) []sym.Value {
			fields := make([]sym.Value, stt.NumFields())
			for i := 0; i < stt.NumFields(); i++ {
				f := stt.Field(i)
				if fs, ok := f.Type().Underlying().(*types.Signature); ok {
					fields[i] = sym.StubFunc(f.Name(), fs)
				} else {
					fields[i] = e.Zero(f.Type())
				}
			}
			args := []sym.Value{&sym.StructV{F: fields}}
			for i := 0; i < sig.Params().Len(); i++ {
				v := st.FreshValue(fmt.Sprintf("p%d", i), sig.Params().At(i).Type())
				params = append(params, v)
				args = append(args, v)
			}
			return args
		}, func(st *sym.State, ret sym.Value, panicked string) {
			if panicked != "" {
				why = "panics: " + panicked
				return
			}
			var calls []sym.Event
			for _, ev := range st.Events() {
				if strings.HasPrefix(ev.Tag, "opaque:@stub:") {
					calls = append(calls, ev)
				}
			}
			if len(calls) != 1 {
				why = fmt.Sprintf("%d forwarded calls instead of 1", len(calls))
				return
			}
			c := calls[0]
			if got := strings.TrimPrefix(c.Tag, "opaque:@stub:"); got != wantField {
				why = "forwards to field " + got + " instead of " + wantField
				return
			}
			if len(c.Args) != len(params) {
				why = fmt.Sprintf("%d arguments forwarded, %d parameters", len(c.Args), len(params))
				return
			}
			for i := range params {
				eq, ok := st.EqValues(params[i], c.Args[i])
				if !ok {
					why = fmt.Sprintf("argument %d cannot be compared", i)
					return
				}
				st.AssertDriver("C14.forward."+name, eq)
				if eq.Const && !eq.CB {
					why = fmt.Sprintf("argument %d is not parameter %d", i, i)
					return
				}
			}
			if eq, ok := st.EqValues(ret, c.Result); !ok || (eq.Const && !eq.CB) {
				why = "the result is not what the field returned"
				return
			} else {
				st.AssertDriver("C14.forward."+name, eq)
			}
			if len(params) == 0 {
				st.AssertDriver("C14.forward."+name, sym.TrueT)
			}
		})
		// String() wrappers guard against a nil field: two paths (nil / non-nil) are legitimate
		if reason != "done" {
			if it.meth.Name() == "String" && reason == "forked" {
				inconclusive = append(inconclusive, name+": forks (nil guard); checked on the non-nil path only")
			} else if reason != "forked" {
				inconclusive = append(inconclusive, name+": "+reason)
				continue
			}
		}
		checked++
		if why != "" {
			failures = append(failures, failure{it.typ.Obj().Name(), it.meth.Name(), why})
		}
		if len(samples) < 12 {
			samples = append(samples, sampleRec{Obligation: "C14.forward." + name, Harness: fn.String(), Verdict: map[bool]string{true: "holds", false: "counterexample"}[why == ""], Paths: 1, Solver: "z3"})
		}
	}
	// violations found by the solver (non-constant equalities)
	for _, v := range e.Violations {
		nm := strings.TrimPrefix(v.ID, "C14.forward.")
		parts := strings.SplitN(nm, ".", 2)
		if len(parts) == 2 {
			failures = append(failures, failure{parts[0], parts[1], "an argument or result differs from what must be forwarded"})
		}
	}
	exit := 0
	nViol := 0
	os.RemoveAll(filepath.Join(verifDir, "replays", p.ID))
	os.MkdirAll(filepath.Join(verifDir, "replays", p.ID), 0o755)
	if len(failures) > 0 {
		// replay natively: call the method through reflection with recording closures
		sc, _, err := newScratch(p, true)
		if err == nil {
			defer sc.cleanup()
			seen := map[string]bool{}
			for _, f := range failures {
				key := f.typ + "." + f.meth
				if seen[key] {
					continue
				}
				seen[key] = true
				out, _ := sc.goTest(p, "^TestVerifReplayC14$", []string{"VERIF_C14_TYPE=" + f.typ, "VERIF_C14_METHOD=" + f.meth}, false, 10*time.Minute)
				path := filepath.Join(verifDir, "replays", p.ID, sanitize(key)+".json")
				os.WriteFile(path, []byte(fmt.Sprintf("{\"property\":\"C14\",\"type\":%q,\"method\":%q,\"why\":%q}\n", f.typ, f.meth, f.why)), 0o644)
				if strings.Contains(out, "VC14 BAD") {
					fmt.Printf("VIOLATION property=C14 replay=%s\n  wrapper %s.%s: %s (reproduced natively through reflection)\n", path, f.typ, f.meth, f.why)
					nViol++
					exit = 1
				} else {
					fmt.Printf("UNREPRODUCED wrapper %s.%s: %s\n%s\n", f.typ, f.meth, f.why, tail(out, 4))
					inconclusive = append(inconclusive, key+": counterexample did not reproduce natively")
				}
			}
		}
	}
	if berr != nil {
		inconclusive = append(inconclusive, "binding table: "+berr.Error())
	}
	bindViol := 0
	if len(bindFails) > 0 {
		sc, _, err := newScratch(p, true)
		if err == nil {
			defer sc.cleanup()
			for i, f := range bindFails {
				if i >= 12 {
					inconclusive = append(inconclusive, fmt.Sprintf("%d further binding mismatches not replayed", len(bindFails)-i))
					break
				}
				key := f.Key + "." + f.Name
				okBad, out := c14ReplayBinding(p, sc, f)
				path := filepath.Join(verifDir, "replays", p.ID, "bind_"+sanitize(key)+".json")
				jb, _ := json.Marshal(map[string]string{"property": "C14", "table": f.Table, "key": f.Key, "name": f.Name, "why": f.Why, "kind": f.Kind, "want": f.Want})
				os.WriteFile(path, append(jb, '\n'), 0o644)
				if okBad {
					fmt.Printf("VIOLATION property=C14 replay=%s\n  binding %s[%s] %s (confirmed natively against the named object)\n", path, f.Key, f.Name, f.Why)
					nViol++
					bindViol++
					exit = 1
				} else {
					fmt.Printf("UNREPRODUCED binding %s[%s]: %s\n%s\n", f.Key, f.Name, f.Why, tail(out, 4))
					inconclusive = append(inconclusive, key+": binding mismatch did not reproduce natively")
				}
			}
		}
	}
	for _, n := range bindNotes {
		fmt.Println("  note:", n)
	}
	for _, inc := range inconclusive {
		fmt.Println("INCONCLUSIVE:", inc)
	}
	cov := map[string]interface{}{
		"states": maxInt(e.Stats.Paths, 1), "transitions": maxInt(e.Stats.Instrs, 1), "traces_validated_against_impl": 0,
		"samples": samplesOrPlaceholder(samples), "obligations": len(items), "discharged": checked - len(failures),
		"queries": e.Solver.Queries, "solver_time_s": e.Solver.Time.Seconds(), "wrapper_methods": len(items),
		"functions_encoded": []string{fmt.Sprintf("%d wrapper methods of package stdlib (receiver types _pkg_Iface)", checked)},
		"binding_entries":   bindEntries, "binding_entries_compared": bindCompared, "binding_mismatches": len(bindFails), "binding_notes": bindNotes,
		"bounds": p.Bounds, "outside": p.Outside, "inconclusive": inconclusive, "source_hash": prog.SourceHash(),
		"technique": "symbolic execution of each wrapper method from go/ssa with uninterpreted W-fields; argument/result identity asserted (z3)",
	}
	writeEvidenceCov(evPath, p.ID, tier, seed, time.Since(t0), cov, p.Assumptions, nViol)
	fmt.Printf("C14 %s: bindings=%d compared=%d mismatches=%d; wrapper methods=%d checked=%d violations=%d inconclusive=%d wall=%.1fs\n", tier, bindEntries, bindCompared, len(bindFails), len(items), checked, nViol, len(inconclusive), time.Since(t0).Seconds())
	return exit
}

// replayC14 replays a stored C14 counterexample (wrapper method or binding).
func replayC14(p *Prop, path string, raw []byte) int {
	var m map[string]string
	if err := json.Unmarshal(raw, &m); err != nil {
		fmt.Fprintln(os.Stderr, err)
		return 2
	}
	sc, _, err := newScratch(p, true)
	if err != nil {
		fmt.Fprintln(os.Stderr, err)
		return 2
	}
	defer sc.cleanup()
	if m["key"] != "" {
		f := c14BindFailure{Table: m["table"], Key: m["key"], Name: m["name"], Why: m["why"], Kind: m["kind"], Want: m["want"]}
		bad, out := c14ReplayBinding(p, sc, f)
		fmt.Printf("replay of binding %s[%s] against the real build: mismatch=%v\n", f.Key, f.Name, bad)
		if bad {
			fmt.Printf("VIOLATION property=C14 replay=%s\n", path)
			return 1
		}
		if !strings.Contains(out, "VC14BIND OK") {
			fmt.Println(tail(out, 6))
			return 2
		}
		return 0
	}
	out, _ := sc.goTest(p, "^TestVerifReplayC14$", []string{"VERIF_C14_TYPE=" + m["type"], "VERIF_C14_METHOD=" + m["method"]}, false, 10*time.Minute)
	bad := strings.Contains(out, "VC14 BAD")
	fmt.Printf("replay of wrapper %s.%s against the real build: mismatch=%v\n", m["type"], m["method"], bad)
	if bad {
		fmt.Printf("VIOLATION property=C14 replay=%s\n", path)
		return 1
	}
	return 0
}
