package main

var intKinds = []int{2, 3, 4, 5, 6, 7, 8, 9, 10, 11, 12} // reflect.Int .. reflect.Uintptr

func init() {
	props["C03"] = &Prop{
		ID: "C03", PkgDir: "interp", PkgPath: interpPath, PkgName: "interp",
		Harness:        []string{"interp_common.go", "big_common.go", "models_validate.go", "C03.go"},
		ObserveHarness: []string{"vv_models"},
		Instrument:     runidInstr,
		Obligs: func(tier string) []Oblig {
			var r []Oblig
			for _, k := range intKinds {
				r = append(r, Oblig{Harness: "vh_C03_repr_int", Globals: map[string]int{"vhKind": k}})
				r = append(r, Oblig{Harness: "vh_C03_materialise", Globals: map[string]int{"vhKind": k}})
			}
			for _, k := range []int{1, 2, 8, 24} {
				r = append(r, Oblig{Harness: "vh_C03_repr_other", Globals: map[string]int{"vhKind": k}})
			}
			for op := 0; op <= 7; op++ {
				r = append(r, Oblig{Harness: "vh_C03_fold", Globals: map[string]int{"vhOp": op}})
			}
			for op := 0; op <= 3; op++ {
				r = append(r, Oblig{Harness: "vh_C03_bitwise", BVMode: true, Globals: map[string]int{"vhOp": op}})
			}
			for op := 0; op <= 1; op++ {
				r = append(r, Oblig{Harness: "vh_C03_shift", Globals: map[string]int{"vhOp": op}, Unroll: 70, MaxPaths: 1000})
			}
			// typed folding: every integer kind x every operator
			for _, k := range intKinds {
				for op := 0; op <= 12; op++ {
					r = append(r, Oblig{Harness: "vh_C03_fold_typed", Globals: map[string]int{"vhKind": k, "vhOp": op}, Unroll: 80, MaxPaths: 2000})
				}
			}
			// typed constants through the real compile pass (call site of the overflow check)
			for _, k := range []int{3, 6, 8, 11} {
				for op := 0; op <= 2; op++ {
					r = append(r, Oblig{Harness: "vh_C03_cfg_typed", Globals: map[string]int{"vhKind": k, "vhOp": op}, Unroll: 80, MaxPaths: 2000})
				}
			}
			// untyped operands under a typed context: add sub mul shl neg (indices 0,1,2,4,5 of vhTypedActs)
			for _, k := range []int{2, 3, 6, 8, 11} {
				for _, op := range []int{0, 1, 2, 4, 5} {
					r = append(r, Oblig{Harness: "vh_C03_fold_context", Globals: map[string]int{"vhKind": k, "vhOp": op}, Unroll: 80, MaxPaths: 2000})
				}
			}
			return r
		},
		Redirects:   map[string]string{"(*" + interpPath + ".node).cfgErrorf": "vmCfgErrorf"},
		Bounds:      []string{"integer constants of unbounded magnitude (SMT Int)", "all 11 integer kinds", "shift counts 0..64 (untyped) / 0..70 (typed)", "typed folding: all operand values of each of the 11 integer kinds", "strings: any ASCII string"},
		Assumptions: []string{"go/constant modelled exactly on Int/String/Bool kinds; Float/Complex constants opaque", "reflect modelled on basic kinds (engine reflect model)", "typed folding: the harness repeats cfg.go's sequence fold-then-constOverflow; cfgErrorf replaced by a model (the message is not part of the property)"},
		Outside:     []string{"float/complex representability and rounding", "iota and implicit repetition", "default types", "typed float constant overflow", "bitwise operators on constants outside [0, 2^64)", "len of constant arrays"},
	}
}
