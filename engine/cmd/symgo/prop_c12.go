package main

func init() {
	ip := "(*" + interpPath + ".Interpreter)."
	props["C12"] = &Prop{
		ID: "C12", PkgDir: "interp", PkgPath: interpPath, PkgName: "interp",
		Harness:    []string{"interp_common.go", "big_common.go", "C12.go", "C12_rules.go"},
		Instrument: runidInstr, ValidateRun: "^TestVerifValidateC12$", TestFiles: []string{"C12_validate.go.txt"},
		Redirects: map[string]string{
			interpPath + ".genGlobalVars":          "vmGenGlobalVarsFail",
			"(*" + interpPath + ".node).cfgErrorf": "vmRuleErrorf",
			interpPath + ".vhGoAcceptsBinary":      "vmGoAcceptsBinary", interpPath + ".vhGoAcceptsUnary": "vmGoAcceptsUnary", interpPath + ".vhGoAcceptsAssign": "vmGoAcceptsAssign", interpPath + ".vhGoAcceptsConst": "vmGoAcceptsConst", interpPath + ".vhGoAcceptsAssignConst": "vmGoAcceptsAssignConst", interpPath + ".vhGoAcceptsAssert": "vmGoAcceptsAssert",
			ip + "parse": "vmParse", ip + "ast": "vmAst", ip + "gtaRetry": "vmGtaRetry", ip + "cfg": "vmCfg", ip + "Execute": "vmExecute",
		},
		Obligs: func(tier string) []Oblig {
			r := []Oblig{
				{Harness: "vh_C12_eval", Unroll: 8, KeepRedirects: []string{"vmParse", "vmAst", "vmGtaRetry", "vmCfg", "vmExecute"}},
				{Harness: "vh_C12_execute", Unroll: 8, KeepRedirects: []string{"vmGenGlobalVarsFail"}},
			}
			bits := 70
			if tier == "thorough" {
				bits = 200
			}
			rules := []string{"vmRuleErrorf", "vmGoAcceptsBinary", "vmGoAcceptsUnary", "vmGoAcceptsAssign", "vmGoAcceptsConst", "vmGoAcceptsAssignConst", "vmGoAcceptsAssert"}
			for op := 0; op < 19; op++ {
				r = append(r, Oblig{Harness: "vh_C12_binary", Unroll: 24, KeepRedirects: rules, Globals: map[string]int{"vhRuleOp": op}})
			}
			for op := 0; op < 4; op++ {
				r = append(r, Oblig{Harness: "vh_C12_unary", Unroll: 24, KeepRedirects: rules, Globals: map[string]int{"vhRuleOp": op}})
			}
			r = append(r, Oblig{Harness: "vh_C12_assign", Unroll: 24, KeepRedirects: rules})
			for op := 0; op < 19; op++ {
				r = append(r, Oblig{Harness: "vh_C12_cfg", Unroll: 40, KeepRedirects: rules, Globals: map[string]int{"vhRuleOp": op}})
			}
			r = append(r, Oblig{Harness: "vh_C12_cfg_assert", Unroll: 40, KeepRedirects: rules})
			for ck := 0; ck <= 2; ck++ {
				r = append(r, Oblig{Harness: "vh_C12_assignconst", Unroll: 24, KeepRedirects: rules, Globals: map[string]int{"vhConstKind": ck, "vhConstBits": bits}})
			}
			for op := 0; op < 19; op++ {
				for ck := 0; ck <= 2; ck++ {
					for left := 0; left <= 1; left++ {
						if left == 1 && (op == 9 || op == 10) {
							continue // constant << variable takes its type from the context: outside
						}
						r = append(r, Oblig{Harness: "vh_C12_binconst", Unroll: 24, KeepRedirects: rules, Globals: map[string]int{"vhRuleOp": op, "vhConstKind": ck, "vhConstLeft": left, "vhConstBits": bits}})
					}
				}
			}
			return r
		},
		Bounds:      []string{"every combination of outcomes (error / success) of the stages parse, ast, gtaRetry, cfg; ast may also yield no root", "type rules: 19 binary and 4 unary operators, assignment, on variables of the 17 predeclared basic types; one operand an untyped constant: integer of any value with |v| <= 2^70 (thorough 2^200), true, or a string, on either side"},
		Assumptions: []string{"the compile stages are replaced by models that fail on command (their own type rules are outside)", "Execute replaced by a counter (eval obligation); in the Execute obligation the real Execute runs with genGlobalVars failing on command"},
		Stubs:       []string{"(*Interpreter).parse", "(*Interpreter).ast", "(*Interpreter).gtaRetry", "(*Interpreter).cfg", "(*Interpreter).Execute"},
		Outside:     []string{"type rules beyond binary/unary/assignment on basic types (composite and named types, conversions, builtins, literals, call arguments, channel directions)", "untyped float/complex/rune constants", "call sites of the checker in cfg.go other than binary/logical expressions and type assertions", "code that cfg itself runs while compiling (source imports)", "EvalPath/importSrc"},
	}
}
