package main

func init() {
	ip := "(*" + interpPath + ".Interpreter)."
	props["C12"] = &Prop{
		ID: "C12", PkgDir: "interp", PkgPath: interpPath, PkgName: "interp",
		Harness:    []string{"interp_common.go", "C12.go"},
		Instrument: runidInstr,
		Redirects: map[string]string{
			interpPath + ".genGlobalVars": "vmGenGlobalVarsFail",
			ip + "parse": "vmParse", ip + "ast": "vmAst", ip + "gtaRetry": "vmGtaRetry", ip + "cfg": "vmCfg", ip + "Execute": "vmExecute",
		},
		Obligs: func(tier string) []Oblig {
			return []Oblig{
				{Harness: "vh_C12_eval", Unroll: 8, KeepRedirects: []string{"vmParse", "vmAst", "vmGtaRetry", "vmCfg", "vmExecute"}},
				{Harness: "vh_C12_execute", Unroll: 8, KeepRedirects: []string{"vmGenGlobalVarsFail"}},
			}
		},
		Bounds:      []string{"every combination of outcomes (error / success) of the stages parse, ast, gtaRetry, cfg; ast may also yield no root"},
		Assumptions: []string{"the compile stages are replaced by models that fail on command (their own type rules are outside)", "Execute replaced by a counter (eval obligation); in the Execute obligation the real Execute runs with genGlobalVars failing on command"},
		Stubs:       []string{"(*Interpreter).parse", "(*Interpreter).ast", "(*Interpreter).gtaRetry", "(*Interpreter).cfg", "(*Interpreter).Execute"},
		Outside:     []string{"the ~30 type rules of typecheck.go / type.go", "never rejecting a well-typed program", "code that cfg itself runs while compiling (source imports)", "EvalPath/importSrc"},
	}
}
