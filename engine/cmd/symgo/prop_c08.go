package main

func init() {
	props["C08"] = &Prop{
		ID: "C08", PkgDir: "interp", PkgPath: interpPath, PkgName: "interp",
		Harness:    []string{"interp_common.go", "C08.go"},
		Instrument: runidInstr, ReplayRace: true,
		Obligs: func(tier string) []Oblig {
			return []Oblig{{Harness: "vh_C08_select", Unroll: 8}}
		},
		Bounds:      []string{"2 activations of the same select statement (2 receive clauses), B runs at A's preemption point before reflect.Select"},
		Assumptions: []string{"reflect.Select replaced by a model that chooses case 0", "channels are opaque values"},
		Outside:     []string{"whole concurrent programs, Go scheduler, N interpreters, host goroutines, races on frame data shared through closures, symbol tables"},
	}
}
