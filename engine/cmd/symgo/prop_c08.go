package main

func init() {
	props["C08"] = &Prop{
		ID: "C08", PkgDir: "interp", PkgPath: interpPath, PkgName: "interp",
		Harness:    []string{"interp_common.go", "C09_block.go", "C08.go"},
		Instrument: runidInstr, ReplayRace: true,
		Obligs: func(tier string) []Oblig {
			r := []Oblig{{Harness: "vh_C08_select", Unroll: 8}}
			for op := 0; op <= 5; op++ {
				for cm := 0; cm <= 1; cm++ {
					r = append(r, Oblig{Harness: "vh_C08_chanop", Unroll: 8, Globals: map[string]int{"vhBlockOp": op, "vhCancelMode": cm}})
				}
			}
			for v := 0; v <= 1; v++ {
				r = append(r, Oblig{Harness: "vh_C08_call", Unroll: 8, Globals: map[string]int{"vhVariadic": v}})
			}
			for form := 0; form <= 1; form++ {
				r = append(r, Oblig{Harness: "vh_C08_go", Unroll: 8, Globals: map[string]int{"vhGoForm": form}})
			}
			for form := 0; form <= 1; form++ {
				r = append(r, Oblig{Harness: "vh_C08_callbin", Unroll: 8, Globals: map[string]int{"vhBinForm": form}})
			}
			return r
		},
		Bounds:      []string{"2 activations of the same statement: select (2 receive clauses), recv (2 forms), recv2, send, range over channel - with and without a context - and an interpreted call (plain and variadic callee); B runs at A's preemption point before reflect.Select where there is one"},
		Assumptions: []string{"reflect.Select replaced by a model that chooses case 0", "channels are opaque values"},
		Outside:     []string{"whole concurrent programs, Go scheduler, N interpreters, host goroutines, races on frame data shared through closures, symbol tables"},
	}
}
