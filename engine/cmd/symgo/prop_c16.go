package main

func init() {
	props["C16"] = &Prop{
		ID: "C16", PkgDir: "interp", PkgPath: interpPath, PkgName: "interp",
		Harness: []string{"interp_common.go", "C16.go", "C16_import.go"},
		Redirects: map[string]string{
			"(*" + interpPath + ".Interpreter).parse": "vmImpParse", "(*" + interpPath + ".Interpreter).ast": "vmImpAst", "(*" + interpPath + ".Interpreter).gta": "vmImpGta",
			"(*" + interpPath + ".Interpreter).gtaRetry": "vmImpGtaRetry", "(*" + interpPath + ".Interpreter).cfg": "vmImpCfg",
		},
		Instrument: runidInstr,
		InlinePkgs: []string{"io/fs"},
		Solver:     "cvc5",
		Obligs: func(tier string) []Oblig {
			var r []Oblig
			maxRoot := 2
			if tier == "thorough" {
				maxRoot = 3
			}
			for rs := 0; rs <= maxRoot; rs++ {
				for is := 1; is <= 2; is++ {
					r = append(r, Oblig{Harness: "vh_C16_resolve", Globals: map[string]int{"vhRootSegs": rs, "vhImpSegs": is}, Unroll: 12})
				}
			}
			for up := 0; up <= 1; up++ {
				for from := 0; from <= 2; from++ {
					r = append(r, Oblig{Harness: "vh_C16_relative", Globals: map[string]int{"vhRelUp": up, "vhRelFrom": from}, Unroll: 12})
				}
			}
			r = append(r, Oblig{Harness: "vh_import_body", Unroll: 12}, Oblig{Harness: "vh_import_cycle", Unroll: 12})
			for shape := 0; shape <= 2; shape++ {
				r = append(r, Oblig{Harness: "vh_import_subroot", Unroll: 12, Globals: map[string]int{"vhSubShape": shape}})
			}
			return r
		},
		Bounds:      []string{"importer directory: 0..2 (thorough 3) words below GOPATH/src, each any word of 1..6 letters (so also 'vendor')", "import path: 1..2 words", "directory tree: an uninterpreted predicate isdir(path), prefix-closed on the paths in play", "GOPATH fixed to /g, separator '/'", "importSrc body on a two-file package: every combination of stage failures; second import; import in progress", "relative imports ./x and ../x from the main file or from a package one or two levels below it; main file in <d1>/<d2>/main.go"},
		Assumptions: []string{"the importer's directory and all its ancestors exist", "a vendored package directory implies its vendor directory", "names contain neither '/' nor '.'"},
		Outside:     []string{"rootFromSourceLocation (os.Getwd)", "Windows separators"},
	}
}
