package main

import (
	"fmt"
	"go/constant"
	"go/token"
	"go/types"
	"os"
	"os/exec"
	"path"
	"path/filepath"
	"sort"
	"strconv"
	"strings"
	"time"

	"verif/engine/sym"
)

// C14, binding identity: the initialisers of package stdlib are executed from
// SSA by the engine and every entry of the resulting table is compared with
// the go/types object its key names. There is no symbolic input here: the
// space is the finite table, the deciding step is the engine's evaluation of
// the real initialisers (the solver is not involved in this part).

// documented restricted replacements (extract/extract.go `restricted`)
var c14Restricted = map[string]bool{"osExit": true, "osFindProcess": true, "logFatal": true, "logFatalf": true, "logFatalln": true, "logLogger": true, "logNew": true}

// c14LaterMethods: interface methods added by Go releases after the one the
// compiled table files target (go1.22), read from GOROOT/api/go1.N.txt, N >= 23:
// a wrapper generated for go1.22 legitimately lacks them.
func c14LaterMethods() map[string]bool {
	out := map[string]bool{}
	root := strings.TrimSpace(goEnvVar("GOROOT"))
	files, _ := filepath.Glob(filepath.Join(root, "api", "go1.*.txt"))
	for _, f := range files {
		v := strings.TrimSuffix(strings.TrimPrefix(filepath.Base(f), "go1."), ".txt")
		if n, err := strconv.Atoi(v); err != nil || n < 23 {
			continue
		}
		b, err := os.ReadFile(f)
		if err != nil {
			continue
		}
		for _, l := range strings.Split(string(b), "\n") {
			// pkg reflect, type Type interface, CanSeq() bool #66056
			if two := strings.SplitN(l, ", ", 2); len(two) == 2 && strings.HasPrefix(two[0], "pkg ") {
				// pkg slices, func All[...](...)   /  pkg x, type T struct  /  pkg x, const C = 1  / pkg x, var V T
				fs := strings.Fields(two[1])
				if len(fs) >= 2 && (fs[0] == "func" || fs[0] == "type" || fs[0] == "const" || fs[0] == "var") {
					nm := fs[1]
					if i := strings.IndexAny(nm, "([ "); i > 0 {
						nm = nm[:i]
					}
					out[strings.Fields(strings.TrimPrefix(two[0], "pkg "))[0]+"."+nm] = true
				}
			}
			parts := strings.SplitN(l, ", ", 3)
			if len(parts) != 3 || !strings.HasPrefix(parts[0], "pkg ") || !strings.HasSuffix(parts[1], " interface") {
				continue
			}
			pk := strings.Fields(strings.TrimPrefix(parts[0], "pkg "))[0]
			tn := strings.Fields(parts[1])[1]
			if i := strings.Index(parts[2], "("); i > 0 {
				out[pk+"."+tn+"."+parts[2][:i]] = true
			}
		}
	}
	return out
}

func goEnvVar(name string) string {
	cmd := exec.Command("go", "env", name)
	cmd.Env = goEnv()
	b, _ := cmd.Output()
	return string(b)
}

type c14BindFailure struct {
	Table          string // package holding the table
	Key, Name, Why string
	Kind           string // func, var, type, const, restricted-func, restricted-type
	Want           string // expected constant text for consts
}

func constText(v constant.Value) string {
	switch v.Kind() {
	case constant.Int:
		return "I:" + v.ExactString()
	case constant.String:
		return "s:" + constant.StringVal(v)
	case constant.Bool:
		return "b:" + strconv.FormatBool(constant.BoolVal(v))
	case constant.Float:
		// the kind is part of the constant: an untyped float constant defaults to float64
		if i := constant.ToInt(v); i.Kind() == constant.Int {
			return "F:" + i.ExactString()
		}
		return "F:" + v.ExactString()
	}
	return "c:" + v.ExactString()
}

// c14Tables: the shipped tables. Only package stdlib has restricted
// replacements; in stdlib/unsafe the builtins Sizeof, Alignof, Offsetof and Add
// have no package-level object to denote and are bound to local implementations.
var c14Tables = []struct {
	Path       string
	Restricted bool
	MinPkgs    int
	Skip       map[string]bool
}{
	{stdlibPath, true, 100, nil},
	{stdlibPath + "/unrestricted", false, 3, nil},
	{stdlibPath + "/syscall", false, 1, nil},
	{stdlibPath + "/unsafe", false, 1, map[string]bool{"Sizeof": true, "Alignof": true, "Offsetof": true, "Add": true}},
}

func c14CheckBindings(prog *sym.Program, e *sym.Engine, tablePath string, restricted bool, minPkgs int, skip map[string]bool) (entries, compared int, fails []c14BindFailure, notes []string, err error) {
	if err = e.RunInit(tablePath); err != nil {
		return
	}
	stdPk := prog.Package(tablePath)
	table := e.BaseMapEntries(e.BaseGlobal(tablePath, "Symbols"))
	if len(table) < minPkgs {
		err = fmt.Errorf("the table of %s has only %d packages after the initialisers ran", tablePath, len(table))
		return
	}
	uncompared := map[string]int{}
	later := c14LaterMethods()
	var missing []string
	for _, pe := range table {
		kt, ok := pe.K.(*sym.Term)
		if !ok || !kt.Const {
			err = fmt.Errorf("non-constant table key")
			return
		}
		key := kt.CS
		ipath, pname := path.Dir(key), path.Base(key)
		if key == "." || strings.HasPrefix(ipath, "github.com/traefik/yaegi") {
			continue
		}
		var tp *types.Package
		for _, p := range prog.Prog.AllPackages() {
			if p.Pkg.Path() == ipath {
				tp = p.Pkg
			}
		}
		if tp == nil {
			fails = append(fails, c14BindFailure{Key: key, Why: "no such package " + ipath})
			continue
		}
		if tp.Name() != pname {
			fails = append(fails, c14BindFailure{Key: key, Why: "package " + ipath + " is named " + tp.Name()})
		}
		prefix := strings.NewReplacer("/", "_", "-", "_", ".", "_", "~", "_").Replace("_" + ipath + "_")
		present := map[string]bool{}
		for _, en := range e.BaseMapEntries(pe.V) {
			if nt, ok := en.K.(*sym.Term); ok && nt.Const {
				present[nt.CS] = true
			}
		}
		if restricted {
			// completeness (default table only): every exported non-generic object of the release
			for _, nm := range tp.Scope().Names() {
				o := tp.Scope().Lookup(nm)
				if !o.Exported() || present[nm] || later[ipath+"."+nm] {
					continue
				}
				switch x := o.(type) {
				case *types.Func:
					if sg := x.Type().(*types.Signature); sg.TypeParams().Len() > 0 {
						continue
					}
				case *types.TypeName:
					if n, ok := x.Type().(*types.Named); ok && n.TypeParams().Len() > 0 {
						continue
					}
					if it, ok := x.Type().Underlying().(*types.Interface); ok && !it.IsMethodSet() {
						continue // a constraint interface (cmp.Ordered) is not a type a value can have
					}
					if _, isAlias := x.Type().(*types.Alias); isAlias {
						if n, ok := types.Unalias(x.Type()).(*types.Named); ok && n.TypeParams().Len() > 0 {
							continue
						}
					}
				}
				missing = append(missing, ipath+"."+nm)
				fails = append(fails, c14BindFailure{Table: tablePath, Key: key, Name: nm, Why: "is missing: package " + ipath + " declares the exported object " + nm, Kind: "missing"})
			}
		}
		for _, en := range e.BaseMapEntries(pe.V) {
			nt, ok := en.K.(*sym.Term)
			if !ok || !nt.Const {
				continue
			}
			name := nt.CS
			if skip[name] {
				continue
			}
			entries++
			d := e.DenotationOf(en.V)
			bad := func(kind, why, want string) {
				fails = append(fails, c14BindFailure{Table: tablePath, Key: key, Name: name, Why: why, Kind: kind, Want: want})
			}
			if strings.HasPrefix(name, "_") {
				// interface wrapper: typed nil pointer to stdlib's _<path>_<Name>, for an interface <Name> of the package
				want := prefix + name[1:]
				pt, _ := d.GoType.(*types.Pointer)
				var nm *types.Named
				if pt != nil {
					nm, _ = pt.Elem().(*types.Named)
				}
				io := tp.Scope().Lookup(name[1:])
				switch {
				case d.Kind != "typednil" || nm == nil || nm.Obj().Pkg() == nil || nm.Obj().Pkg().Path() != tablePath || nm.Obj().Name() != want:
					bad("wrapper", "is not (*"+want+")(nil)", want)
				case io == nil || !types.IsInterface(io.Type()):
					bad("wrapper", "wraps "+name[1:]+" which is not an interface of "+ipath, "")
				default:
					// every exported method of the interface: a wrapper method and a W-field of the same signature
					it := io.Type().Underlying().(*types.Interface)
					ws, _ := nm.Underlying().(*types.Struct)
					miss := ""
					for i := 0; i < it.NumMethods() && miss == ""; i++ {
						m := it.Method(i)
						if !m.Exported() || later[ipath+"."+name[1:]+"."+m.Name()] {
							continue
						}
						msig := m.Type().(*types.Signature)
						var wm *types.Func
						for j := 0; j < nm.NumMethods(); j++ {
							if nm.Method(j).Name() == m.Name() {
								wm = nm.Method(j)
							}
						}
						var wf *types.Var
						for j := 0; ws != nil && j < ws.NumFields(); j++ {
							if ws.Field(j).Name() == "W"+m.Name() {
								wf = ws.Field(j)
							}
						}
						plain := types.NewSignatureType(nil, nil, nil, msig.Params(), msig.Results(), msig.Variadic())
						switch {
						case wm == nil:
							miss = "has no method " + m.Name()
						case !types.Identical(types.NewSignatureType(nil, nil, nil, wm.Type().(*types.Signature).Params(), wm.Type().(*types.Signature).Results(), wm.Type().(*types.Signature).Variadic()), plain):
							miss = "method " + m.Name() + " has a different signature"
						case wf == nil:
							miss = "has no field W" + m.Name()
						case !types.Identical(wf.Type(), plain):
							miss = "field W" + m.Name() + " has a different signature"
						}
					}
					if miss != "" {
						bad("wrapper-shape", "wrapper "+want+" "+miss, "")
					} else {
						compared++
					}
				}
				continue
			}
			obj := tp.Scope().Lookup(name)
			if obj == nil || !obj.Exported() {
				bad("unknown", "package "+ipath+" has no exported object "+name, "")
				continue
			}
			if rn := tp.Name() + name; restricted && c14Restricted[rn] {
				m := stdPk.Members[rn]
				switch {
				case m == nil:
					bad("restricted", "replacement "+rn+" does not exist", "")
				case d.Kind == "func" && d.Fn == stdPk.Func(rn):
					compared++
				case d.Kind == "typednil" && d.GoType != nil && types.Identical(d.GoType, types.NewPointer(m.Type())):
					compared++
				default:
					bad("restricted:"+rn, "is not the documented replacement "+rn, "")
				}
				continue
			}
			switch o := obj.(type) {
			case *types.Func:
				if d.Kind == "func" && d.Fn != nil && d.Fn.Object() == types.Object(o) {
					compared++
				} else {
					got := "a " + d.Kind
					if d.Fn != nil {
						got = d.Fn.String()
					}
					bad("func", "denotes "+got+", not the function "+ipath+"."+name, "")
				}
			case *types.Var:
				if d.Kind == "var" && d.Global == ipath+"."+name {
					compared++
				} else {
					bad("var", "denotes "+d.Kind+" "+d.Global+", not the address of the variable "+ipath+"."+name, "")
				}
			case *types.TypeName:
				pt, _ := d.GoType.(*types.Pointer)
				if d.Kind == "typednil" && pt != nil && types.Identical(pt.Elem(), o.Type()) {
					compared++
				} else {
					bad("type", fmt.Sprintf("denotes %s of type %v, not (*%s.%s)(nil)", d.Kind, d.GoType, ipath, name), "")
				}
			case *types.Const:
				want := constText(o.Val())
				var got string
				switch {
				case d.Kind != "const":
					bad("const", "is not a constant value ("+d.Kind+")", want)
					continue
				case d.Int != nil:
					got = "I:" + d.Int.String()
				case d.Str != nil:
					got = "s:" + *d.Str
				case d.Bool != nil:
					got = "b:" + strconv.FormatBool(*d.Bool)
				case d.Lit != "":
					i := strings.Index(d.Lit, ":")
					tokName, lit := d.Lit[:i], d.Lit[i+1:]
					if tokName == "RAT" {
						j := strings.Index(lit, "/")
						got = constText(constant.BinaryOp(constant.MakeFromLiteral(lit[:j], token.INT, 0), token.QUO, constant.MakeFromLiteral(lit[j+1:], token.INT, 0)))
						if got == want {
							compared++
						} else {
							bad("const", "has value "+got+", the constant "+ipath+"."+name+" is "+want, want)
						}
						continue
					}
					tk := map[string]token.Token{"INT": token.INT, "FLOAT": token.FLOAT, "IMAG": token.IMAG, "CHAR": token.CHAR, "STRING": token.STRING}[tokName]
					c := constant.MakeFromLiteral(lit, tk, 0)
					if c.Kind() == constant.Unknown {
						bad("const", "literal "+lit+" is not a valid constant", want)
						continue
					}
					got = constText(c)
				default:
					// a floating-point or complex machine constant: the engine holds it as an FP term; compared natively only
					uncompared["typed float/complex constant"]++
					continue
				}
				if got == want {
					compared++
				} else {
					bad("const", "has value "+got+", the constant "+ipath+"."+name+" is "+want, want)
				}
				// a typed constant keeps its type
				if b, isBasic := o.Type().Underlying().(*types.Basic); isBasic && b.Info()&types.IsUntyped == 0 && d.GoType != nil && d.Lit == "" {
					if !types.Identical(d.GoType, o.Type()) {
						bad("const", fmt.Sprintf("has type %v, the constant has type %v", d.GoType, o.Type()), want)
					}
				}
			default:
				uncompared[fmt.Sprintf("%T", obj)]++
			}
		}
	}
	if len(missing) > 0 {
		sort.Strings(missing)
		notes = append(notes, fmt.Sprintf("MISSING %d: %s", len(missing), strings.Join(missing, " ")))
	}
	var ks []string
	for k := range uncompared {
		ks = append(ks, k)
	}
	sort.Strings(ks)
	for _, k := range ks {
		notes = append(notes, fmt.Sprintf("%d entries not compared: %s", uncompared[k], k))
	}
	return
}

// c14ReplayBinding confirms a binding failure natively with a generated test
// that names the object in Go source.
func c14ReplayBinding(p *Prop, sc *scratch, f c14BindFailure) (bool, string) {
	ipath := path.Dir(f.Key)
	var body string
	imports := []string{`"reflect"`, `"testing"`, `"fmt"`}
	ref := "p." + f.Name
	switch {
	case strings.HasPrefix(f.Kind, "restricted:"):
		rn := strings.TrimPrefix(f.Kind, "restricted:")
		if rn == "logLogger" {
			body = `bad = !got.IsValid() || got.Type() != reflect.TypeOf((*logLogger)(nil))`
		} else {
			body = `bad = !got.IsValid() || got.Kind() != reflect.Func || got.Pointer() != reflect.ValueOf(` + rn + `).Pointer()`
		}
	case f.Kind == "wrapper" && f.Want != "":
		body = `bad = !got.IsValid() || got.Kind() != reflect.Ptr || got.Type().Elem().Name() != ` + strconv.Quote(f.Want) + ` || got.Type().Elem().PkgPath() != ` + strconv.Quote(f.Table)
	case f.Kind == "missing":
		body = `bad = !got.IsValid()`
	case f.Kind == "func":
		imports = append(imports, `p "`+ipath+`"`)
		body = `bad = !got.IsValid() || got.Kind() != reflect.Func || got.Pointer() != reflect.ValueOf(` + ref + `).Pointer()`
	case f.Kind == "var":
		imports = append(imports, `p "`+ipath+`"`)
		body = `bad = !got.IsValid() || !got.CanAddr() || got.Addr().Pointer() != reflect.ValueOf(&` + ref + `).Pointer()`
	case f.Kind == "type":
		imports = append(imports, `p "`+ipath+`"`)
		body = `bad = !got.IsValid() || got.Type() != reflect.TypeOf((*` + ref + `)(nil))`
	case f.Kind == "const":
		imports = append(imports, `"go/constant"`, `"strconv"`)
		body = `text := "?"
	if got.IsValid() {
		switch x := got.Interface().(type) {
		case constant.Value:
			text = vhConstText(x)
		default:
			switch got.Kind() {
			case reflect.Int, reflect.Int8, reflect.Int16, reflect.Int32, reflect.Int64:
				text = "I:" + strconv.FormatInt(got.Int(), 10)
			case reflect.Uint, reflect.Uint8, reflect.Uint16, reflect.Uint32, reflect.Uint64, reflect.Uintptr:
				text = "I:" + strconv.FormatUint(got.Uint(), 10)
			case reflect.String:
				text = "s:" + got.String()
			case reflect.Bool:
				text = "b:" + strconv.FormatBool(got.Bool())
			case reflect.Float32, reflect.Float64:
				text = vhConstText(constant.MakeFloat64(got.Float()))
			}
		}
	}
	bad = text != ` + strconv.Quote(f.Want) + `
	fmt.Println("value", text)`
	default:
		// unknown name, wrapper shape, package: the table itself is the evidence
		body = `bad = !got.IsValid() || ` + strconv.FormatBool(true)
	}
	pkgName := path.Base(f.Table)
	src := "package " + pkgName + "\n\nimport (\n\t" + strings.Join(imports, "\n\t") + "\n)\n\n" + `
func vhConstText(v constant.Value) string {
	switch v.Kind() {
	case constant.Int:
		return "I:" + v.ExactString()
	case constant.String:
		return "s:" + constant.StringVal(v)
	case constant.Bool:
		return "b:" + strconv.FormatBool(constant.BoolVal(v))
	case constant.Float:
		if i := constant.ToInt(v); i.Kind() == constant.Int {
			return "F:" + i.ExactString()
		}
		return "F:" + v.ExactString()
	}
	return "c:" + v.ExactString()
}
`
	if f.Kind != "const" {
		src = "package " + pkgName + "\n\nimport (\n\t" + strings.Join(imports, "\n\t") + "\n)\n"
	}
	src += `
var _ = reflect.ValueOf

func TestVerifReplayC14Bind(t *testing.T) {
	got := Symbols[` + strconv.Quote(f.Key) + `][` + strconv.Quote(f.Name) + `]
	bad := false
	` + body + `
	if bad {
		fmt.Println("VC14BIND BAD")
	} else {
		fmt.Println("VC14BIND OK")
	}
}
`
	real := filepath.Join(sc.dir, "zz_verif_c14bind_test.go")
	os.WriteFile(real, []byte(src), 0o644)
	dir := strings.TrimPrefix(f.Table, "github.com/traefik/yaegi/")
	virt := filepath.Join(repoDir, dir, "zz_verif_c14bind_test.go")
	sc.overlay[virt] = real
	defer delete(sc.overlay, virt)
	q := *p
	q.PkgDir = dir
	out, _ := sc.goTest(&q, "^TestVerifReplayC14Bind$", nil, false, 10*time.Minute)
	return strings.Contains(out, "VC14BIND BAD"), out
}
