package main

func init() {
	props["C19"] = &Prop{
		ID: "C19", PkgDir: "interp", PkgPath: interpPath, PkgName: "interp",
		Harness:    []string{"interp_common.go", "C19.go"},
		Instrument: runidInstr,
		Obligs: func(tier string) []Oblig {
			steps := 3
			if tier == "thorough" {
				steps = 4
			}
			return []Oblig{{Harness: "vh_C19_loop", Globals: map[string]int{"vhMaxSteps": steps}, Unroll: steps + 4}}
		},
		Bounds:      []string{"<= 4 (quick) / 6 (thorough) exec steps", "3 exec closures with distinct code identity, any successor relation", "any subset of the 3 nodes carries a line breakpoint", "mode run; at a breakpoint the session either resumes or is terminated (nondeterministic select)"},
		Assumptions: []string{"exec steps are opaque", "reflect.Value.Pointer of a func is its code identity (one per function literal)", "select in (*Debugger).exec picks any ready case"},
		Outside:     []string{"Debug's goroutine and event plumbing", "SetBreakpoints' line mapping", "step modes (stepInto/Over/Out) beyond run", "program output on real programs"},
	}
}
