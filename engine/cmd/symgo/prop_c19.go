package main

import "verif/engine/sym"

func init() {
	props["C19"] = &Prop{
		ID: "C19", PkgDir: "interp", PkgPath: interpPath, PkgName: "interp",
		Harness:    []string{"interp_common.go", "C19.go"},
		Instrument: runidInstr,
		Obligs: func(tier string) []Oblig {
			steps := 3
			if tier == "thorough" {
				steps = 4
			}
			var r []Oblig
			for mode := 0; mode <= 3; mode++ {
				for fstep := 0; fstep <= 2; fstep++ {
					if mode <= 1 && fstep > 0 {
						continue
					}
					for panicAt := -1; panicAt <= 2; panicAt++ {
						if tier != "thorough" && panicAt > 0 && mode > 0 {
							continue
						}
						r = append(r, Oblig{Harness: "vh_C19_loop", Unroll: steps + 4, MaxPaths: 60000,
							Globals: map[string]int{"vhMaxSteps": steps, "vhMode": mode, "vhFStep": fstep, "vhPanicAt": panicAt}})
					}
				}
			}
			r = append(r, Oblig{Harness: "vh_C19_setbp", Unroll: 12})
			return r
		},
		Redirects:   map[string]string{"(*go/token.FileSet).Position": "vmFsetPosition"},
		Setup:       func(e *sym.Engine) { e.AllowInline["(go/token.Pos).IsValid"] = true },
		Bounds:      []string{"<= 4 (quick) / 6 (thorough) exec steps", "3 exec closures with distinct code identity, any successor relation", "any subset of the 3 nodes carries a line breakpoint", "session mode: run, or a pending step-into / step-over / step-out issued at depth 0..2; at every stop the client either resumes or terminates", "any one of the first three steps may panic (caller recovers)"},
		Assumptions: []string{"exec steps are opaque", "reflect.Value.Pointer of a func is its code identity (one per function literal)", "select in (*Debugger).exec picks any ready case"},
		Outside:     []string{"Debug's goroutine and event plumbing", "function breakpoints, path targets", "program output on real programs"},
	}
}
