package main

import "time"

func init() {
	props["C15"] = &Prop{
		ID: "C15", PkgDir: "interp", PkgPath: interpPath, PkgName: "interp",
		Harness:    []string{"interp_common.go", "C15.go"},
		Instrument: runidInstr, ValidateRun: "^TestVerifValidateC15$", TestFiles: []string{"C15_validate.go.txt"},
		Redirects: map[string]string{interpPath + ".getVarDependencies": "vmGetVarDependencies"},
		Obligs: func(tier string) []Oblig {
			r := []Oblig{
				{Harness: "vh_C15_order", Globals: map[string]int{"vhNVars": 2}, Unroll: 12, MaxPaths: 200000},
				{Harness: "vh_C15_order", Globals: map[string]int{"vhNVars": 3}, Unroll: 12, MaxPaths: 200000},
				{Harness: "vh_C15_order", Globals: map[string]int{"vhNVars": 4}, Unroll: 12, MaxPaths: 200000},
			}
			if tier == "thorough" {
				// five variables: 2^20 relations, split on the first 5 relation bits into 32 obligations
				for fix := 0; fix < 32; fix++ {
					r = append(r, Oblig{Harness: "vh_C15_order", Globals: map[string]int{"vhNVars": 5, "vhDepFix": fix, "vhDepFixBits": 5}, Unroll: 14, MaxPaths: 200000, Budget: 90 * time.Minute})
				}
			}
			r = append(r, Oblig{Harness: "vh_C15_deps", Globals: map[string]int{"vhDepthMax": 10}, Unroll: 30, NoRedirect: true})
			return r
		},
		Bounds:      []string{"2..4 (thorough 5) package-level variables in declaration order", "every dependency relation between them (n*(n-1) symbolic booleans), cyclic ones included"},
		Assumptions: []string{"getVarDependencies replaced by the symbolic relation in the ordering obligation", "single file"},
		Stubs:       []string{"getVarDependencies (ordering obligation only)"},
		Outside:     []string{"multi-file and multi-package layouts", "init functions and main order (covered under C09's Execute sequence only as far as activations go)"},
	}
}
