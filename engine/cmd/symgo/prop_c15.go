package main

func init() {
	props["C15"] = &Prop{
		ID: "C15", PkgDir: "interp", PkgPath: interpPath, PkgName: "interp",
		Harness:    []string{"interp_common.go", "C15.go"},
		Instrument: runidInstr, ValidateRun: "^TestVerifValidateC15$", TestFiles: []string{"C15_validate.go.txt"},
		Redirects:  map[string]string{interpPath + ".getVarDependencies": "vmGetVarDependencies"},
		Obligs: func(tier string) []Oblig {
			r := []Oblig{
				{Harness: "vh_C15_order", Globals: map[string]int{"vhNVars": 2}, Unroll: 12, MaxPaths: 200000},
				{Harness: "vh_C15_order", Globals: map[string]int{"vhNVars": 3}, Unroll: 12, MaxPaths: 200000},
				{Harness: "vh_C15_order", Globals: map[string]int{"vhNVars": 4}, Unroll: 12, MaxPaths: 200000},
			}
			r = append(r, Oblig{Harness: "vh_C15_deps", Globals: map[string]int{"vhDepthMax": 10}, Unroll: 30, NoRedirect: true})
			return r
		},
		Bounds:      []string{"2..4 package-level variables in declaration order", "every dependency relation between them (n*(n-1) symbolic booleans), cyclic ones included"},
		Assumptions: []string{"getVarDependencies replaced by the symbolic relation in the ordering obligation", "single file"},
		Stubs:       []string{"getVarDependencies (ordering obligation only)"},
		Outside:     []string{"multi-file and multi-package layouts", "init functions and main order (covered under C09's Execute sequence only as far as activations go)"},
	}
}
